"""C05 - elementwise operations equal the Python scalar operation, shape preserved.

"Exactly what Python computes" is obtained in the code by DELEGATION: the element operation is
operator.X (or a two-line _reverse_X) applied to the paired elements.  The rules decide that
the delegation is wired correctly for every operator and operand form; they do not re-derive
arithmetic.
"""
from __future__ import annotations

import ast
import builtins
import datetime as _dt
from typing import Dict, List, Optional, Set, Tuple

from ..astutil import Defs
from ..cfg import cfg_of
from ..core import AnalysisError, FuncInfo, attr_chain, cshort, kwarg, short, walk_no_nested, walk_stmts
from ..sites import Resolver, comp_of

ARITH = {
    "__add__": ("operator.add", "+"), "__sub__": ("operator.sub", "-"), "__mul__": ("operator.mul", "*"),
    "__truediv__": ("operator.truediv", "/"), "__floordiv__": ("operator.floordiv", "//"), "__mod__": ("operator.mod", "%"),
    "__pow__": ("operator.pow", "**"),
    "__rmul__": ("_reverse_mul", "*"),
    "__rsub__": ("_reverse_sub", "-"), "__rtruediv__": ("_reverse_truediv", "/"), "__rfloordiv__": ("_reverse_floordiv", "//"),
    "__rmod__": ("_reverse_mod", "%"), "__rpow__": ("_reverse_pow", "**"),
    "bit_lshift": ("operator.lshift", "<<"), "bit_rshift": ("operator.rshift", ">>"),
}
REVERSE = {"_reverse_mul": ast.Mult, "_reverse_sub": ast.Sub, "_reverse_truediv": ast.Div, "_reverse_floordiv": ast.FloorDiv, "_reverse_mod": ast.Mod,
           "_reverse_pow": ast.Pow, "_reverse_add": ast.Add}
UNARY = {"__neg__": "operator.neg", "__pos__": "operator.pos", "__abs__": "operator.abs"}
TABLE_ARITH = {"__add__": "operator.add", "__sub__": "operator.sub", "__mul__": "operator.mul", "__truediv__": "operator.truediv",
               "__floordiv__": "operator.floordiv", "__mod__": "operator.mod", "__pow__": "operator.pow"}
COMMUTATIVE_FORWARD = {}     # (none: `3 * v` forwarded to `v * 3` loses the written operand order for element types whose * is not commutative)

ZIP_WHITELIST = {
    ("display._header_rows", "display_names,sanitized_names"): "both lists are built in lock-step by _compute_headers",
    ("table.Table._table_elementwise_operation", "self.cols(),result_cols"): "result_cols is built one per column of self.cols()",
    ("table.Table._validate_key_tuple_hashable", "key_tuple,key_cols"): "the key tuple has one component per key column by construction",
    ("table.Table.sort_by", "resolved,rev_flags"): "rev_flags is length-checked against keys; resolved has one entry per key",
}


def run(ctx) -> None:
    ctx.rule("a.dispatch", "every arithmetic dunder forwards to the kernel with the operator (or _reverse_ helper) of its own "
                           "name; _reverse_X(y, x) returns x X y; a reflected form may call the forward form only for *", 25)
    ctx.rule("b.no-truncation", "every zip() over operands in the operator / comparison / concatenation / mask code is strict=True "
                                "or dominated by a raising length comparison of the same operands (others: explicit table with reason)", 10)
    ctx.rule("b.length-before-result", "in _elementwise_operation / __radd__ nothing is returned for a vector/sequence operand "
                                       "before the lengths have been compared", 2)
    ctx.rule("c.pairing", "kernel elements are op_func(x, y) with x from self and y from other (scalar: op_func(x, other)); "
                          "reflected addition computes <other element> + <self element>", 4)
    ctx.rule("d.table-arithmetic", "table arithmetic maps op_func(col, other) over exactly self.cols(), or pairs self.cols() "
                                   "with other.cols() after a width check", 2)
    ctx.rule("e.wrappers", "each _String/_Date wrapper applies the str/date method of ITS OWN NAME to every element with the "
                           "caller's arguments, None staying None; MethodProxy and the property branch of __getattr__ do the "
                           "same through getattr(element, name)", 60)
    ctx.rule("f.resolve", "every self.m(...) / super().m(...) in the operator code resolves to a definition in the MRO", 40)
    ctx.section("dispatch", _dispatch, ctx)
    ctx.section("zips", _zips, ctx)
    ctx.section("length-first", _length_first, ctx)
    ctx.section("pairing", _pairing, ctx)
    ctx.section("table", _table, ctx)
    ctx.section("recursion-order", _recursion_order, ctx)
    ctx.section("one-cell", _one_cell, ctx)
    ctx.section("wrappers", _wrappers, ctx)
    ctx.section("resolve", _resolve, ctx)
    ctx.not_decided += ["numeric equality of results (delegated to Python's operator)", "dtype of results (C03/C04)",
                        "behaviour when the element operation itself raises"]


# ---------------------------------------------------------------------------------------------
_BIN = {"add": "Add", "sub": "Sub", "mul": "Mult", "truediv": "Div", "floordiv": "FloorDiv", "mod": "Mod", "pow": "Pow",
        "lshift": "LShift", "rshift": "RShift"}
_UN = {"neg": "USub", "pos": "UAdd", "invert": "Invert"}
_CMP = {"eq": "Eq", "ne": "NotEq", "lt": "Lt", "le": "LtE", "gt": "Gt", "ge": "GtE"}
_BIN.update({"and_": "BitAnd", "or_": "BitOr", "xor": "BitXor"})
_A, _B = ("param", "<self element>"), ("param", "<other>")


def _apply_op(prog, it, home: FuncInfo, op, args):
    """The TERM an operator term computes for the given argument terms: operator.X, a two-line package helper (evaluated
    abstractly with the arguments bound), or a lambda / closure of the analysed function.  None: not understood."""
    from ..symx import Interp
    if op[0] == "attr" and op[1] == ("name", "operator"):
        if len(args) == 2 and op[2] in _BIN:
            return ("bin", _BIN[op[2]], args[0], args[1])
        if len(args) == 2 and op[2] in _CMP:
            return ("cmp", _CMP[op[2]], args[0], args[1])
        if len(args) == 1 and op[2] in _UN:
            return ("un", _UN[op[2]], args[0])
        if len(args) == 1 and op[2] == "abs":
            return ("call", ("name", "abs"), (args[0],), ())
        return None
    if op[0] == "name":
        if op[1] == "abs" and len(args) == 1:
            return ("call", ("name", "abs"), (args[0],), ())
        tgt = prog.functions.get(f"{home.module}.{op[1]}")
        if tgt is None:
            return _apply_made_function(prog, home, op[1], args)
        if len(tgt.params) != len(args) or isinstance(tgt.node, ast.Lambda):
            return None
        sub = Interp(prog, tgt, args=dict(zip(tgt.params, args)))
        rets = sub.returns
        if len(rets) == 1 and not rets[0][0] and not sub.falls_through:
            r = rets[0][1]
            # (a helper that applies an operator HANDED to it: _call_swapped(op, a, b) -> op(b, a))
            if r[0] == "call" and r[1][0] == "attr" and r[1][1] == ("name", "operator") and not r[3]:
                return _norm_ops(r)
            return r
        return None
    if op[0] == "lam":
        r = it.call_value(op, tuple(args))
        return _norm_ops(r) if r is not None else None
    if op[0] == "call" and op[1][0] == "name" and not op[3]:
        # an operator MADE on the spot by a package factory: _reflected(operator.sub)
        fac = prog.functions.get(f"{home.module}.{op[1][1]}")
        if fac is not None and len(fac.params) == len(op[2]) and not isinstance(fac.node, ast.Lambda):
            sub = Interp(prog, fac, args=dict(zip(fac.params, op[2])))
            if len(sub.returns) == 1 and not sub.returns[0][0] and not sub.falls_through and sub.returns[0][1][0] == "lam":
                r = sub.call_value(sub.returns[0][1], tuple(args))
                return _norm_ops(r) if r is not None else None
            # ... or a partial of a package helper: functools.partial(_call_swapped, op)
            if len(sub.returns) == 1 and not sub.returns[0][0] and not sub.falls_through:
                made = sub.returns[0][1]
                if made[0] == "call" and made[1] in (("name", "partial"), ("attr", ("name", "functools"), "partial")) and made[2] and not made[3]:
                    r = _apply_op(prog, sub, fac, made[2][0], tuple(made[2][1:]) + tuple(args))
                    return _norm_ops(r) if r is not None else None
    if op[0] == "call" and op[1] in (("name", "partial"), ("attr", ("name", "functools"), "partial")) and op[2] and not op[3]:
        return _apply_op(prog, it, home, op[2][0], tuple(op[2][1:]) + tuple(args))
    return None


def _norm_ops(t):
    """operator.X(a, b) written as a call is the operation term"""
    if not isinstance(t, tuple) or not t or t[0] == "const":
        return t
    t = tuple(_norm_ops(x) for x in t)
    if t[0] == "call" and t[1][0] == "attr" and t[1][1] == ("name", "operator") and not t[3]:
        if len(t[2]) == 2 and t[1][2] in _BIN:
            return ("bin", _BIN[t[1][2]], t[2][0], t[2][1])
        if len(t[2]) == 2 and t[1][2] in _CMP:
            return ("cmp", _CMP[t[1][2]], t[2][0], t[2][1])
        if len(t[2]) == 1 and t[1][2] in _UN:
            return ("un", _UN[t[1][2]], t[2][0])
    return t


def _apply_made_function(prog, home: FuncInfo, name: str, args):
    """`name = factory(<constants>)` at module level, where factory is a package function that returns a closure: the closure,
    made abstractly, applied to the argument terms."""
    from ..core import module_binding
    from ..symx import Interp, _table_term
    b = module_binding(prog, home.module, name)
    if b is None or not isinstance(b[1], ast.Call) or not isinstance(b[1].func, ast.Name) or b[1].keywords:
        return None
    fac = prog.functions.get(f"{home.module}.{b[1].func.id}")
    if fac is None or len(fac.params) != len(b[1].args):
        return None
    given = [_table_term(a) for a in b[1].args]
    if any(g is None for g in given):
        return None
    sub = Interp(prog, fac, args=dict(zip(fac.params, given)))
    if len(sub.returns) != 1 or sub.returns[0][0] or sub.falls_through or sub.returns[0][1][0] != "lam":
        return None
    r = sub.call_value(sub.returns[0][1], tuple(args))
    return _norm_ops(r) if r is not None else None


def _returns_of(prog, f: FuncInfo):
    from ..sites2 import interp_of
    it = interp_of(prog, f)
    return it, [e for e in it.events if e.kind == "return" and e.depth == 0]


def _dispatch(ctx) -> None:
    """Each operator dunder hands the kernel an operator that COMPUTES <self element> OP <other> (forward) or <other> OP <self
    element> (reflected): the operator argument is applied abstractly to two symbols and the resulting term compared."""
    from ..symx import show
    prog = ctx.prog

    def check(f, kernel, sym_name, want, what, nargs=2):
        it, rets = _returns_of(prog, f)
        SELF = ("param", f.params[0])
        problems = []
        if not rets or it.falls_through:
            problems.append("does not return the kernel's result on every path")
        for e in rets:
            t = e.term
            if not (t[0] == "call" and t[1] == ("attr", SELF, kernel)):
                problems.append(f"returns `{show(t, it)[:70]}`, not self.{kernel}(...)")
                continue
            a = list(t[2])
            if nargs == 2:
                if not (len(a) >= 2 and a[0] == ("param", f.params[1])):
                    problems.append(f"the operand handed to the kernel is `{show(a[0], it)[:30] if a else '?'}`, not {f.params[1]}")
                    continue
                got = _apply_op(prog, it, f, a[1], (_A, _B))
                optxt = show(a[1], it)[:40]
            else:
                if not a:
                    problems.append("no operator handed to the kernel")
                    continue
                got = _apply_op(prog, it, f, a[0], (_A,))
                optxt = show(a[0], it)[:40]
            if got is None:
                problems.append(f"the operator argument `{optxt}` is not operator.X, a package helper or a lambda")
            elif got != want:
                problems.append(f"the operator argument `{optxt}` computes `{show(got)[:50]}`, expected `{show(want)[:50]}`")
        ctx.ob("a.dispatch", f, "dispatch", not problems, what, f.node,
               message=f"{f.qualname}: " + "; ".join(problems[:2]))

    for name, (opn, sym) in ARITH.items():
        f = prog.method("Vector", name)
        if f is None:
            raise AnalysisError(f"Vector.{name} vanished")
        base = name.strip("_").replace("bit_", "")
        refl = name.startswith("__r") and base[1:] in _BIN
        opk = _BIN[base[1:] if refl else base]
        want = ("bin", opk, _B, _A) if refl else ("bin", opk, _A, _B)
        check(f, "_elementwise_operation", sym, want, f"{name}: the kernel operator computes {show(want)}")
    for hname, opcls in REVERSE.items():
        q = f"vector.{hname}"
        if not prog.has_func(q):
            continue                            # a helper folded into its dunder is covered by the dunder's own obligation
        f = prog.func(q)
        got = _apply_op(prog, None, f, ("name", hname), (_A, _B)) if len(f.params) == 2 else None
        want = ("bin", opcls.__name__, _B, _A)
        ctx.ob("a.dispatch", f, "reverse-helper", got == want, f"{hname}(<self element>, <other>) = {show(want)}", f.node,
               message=f"{hname}({', '.join(f.params)}) returns `{show(got) if got is not None else '?'}`; the kernel calls it as "
                       f"{hname}(<self element>, <other>), so it must compute <other> {opcls.__name__} <self element> "
                       f"(other on the LEFT, as written)")
    for name, fwd in COMMUTATIVE_FORWARD.items():
        f = prog.method("Vector", name)
        it, rets = _returns_of(prog, f)
        SELF = ("param", f.params[0])
        opk = _BIN[fwd.strip("_")]
        ok = bool(rets) and not it.falls_through
        for e in rets:
            t = e.term
            if t[0] == "call" and t[1] == ("attr", SELF, fwd) and t[2] == (("param", f.params[1]),):
                continue                        # the forward form of the commutative operator
            if t[0] == "call" and t[1] == ("attr", SELF, "_elementwise_operation") and len(t[2]) >= 2 and t[2][0] == ("param", f.params[1]) \
                    and _apply_op(prog, it, f, t[2][1], (_A, _B)) in (("bin", opk, _A, _B), ("bin", opk, _B, _A)):
                continue
            ok = False
        ctx.ob("a.dispatch", f, "commutative-forward", ok, f"{name} -> {fwd}(other)", f.node,
               message=f"Vector.{name} returns `{'; '.join(show(e.term, it)[:50] for e in rets)}`; a reflected form may reuse the forward "
                       f"form only for the commutative operator (expected self.{fwd}(other))")
    for name, opn in UNARY.items():
        f = prog.method("Vector", name)
        base = name.strip("_")
        want = ("call", ("name", "abs"), (_A,), ()) if base == "abs" else ("un", _UN[base], _A)
        check(f, "_unary_operation", None, want, f"{name}: the kernel operator computes {show(want)}", nargs=1)
    for name, opn in TABLE_ARITH.items():
        f = prog.cls("Table").methods.get(name)
        if f is None:
            raise AnalysisError(f"Table.{name} vanished")
        want = ("bin", _BIN[name.strip("_")], _A, _B)
        check(f, "_table_elementwise_operation", None, want, f"Table.{name}: the kernel operator computes {show(want)}")
    # reflected and unary operators: a Table must override them too - the inherited Vector versions iterate a table's ROWS
    tcls = prog.cls("Table")
    for name in ("__radd__", "__rsub__", "__rmul__", "__rtruediv__", "__rfloordiv__", "__rmod__", "__rpow__"):
        f = tcls.methods.get(name)
        if f is None:
            ctx.ob("a.dispatch", prog.func("table.Table._table_elementwise_operation"), f"table-{name}", False, "", None,
                   message=f"Table does not define {name}: `scalar {name[3:-2]} table` falls back to Vector.{name}, which iterates the table's rows "
                           f"- the result loses the column names or comes back transposed")
            continue
        want = ("bin", _BIN[name.strip("_")[1:]], _B, _A)
        check(f, "_table_elementwise_operation", None, want, f"Table.{name}: the kernel operator computes {show(want)}")
    # the arithmetic shifts are methods (<< and >> are concatenation): a Table must route them column by column too - the inherited
    # Vector method applies the vector kernel to the table as a whole (columns come back unnamed, a table operand gives a nest)
    for name in ("bit_lshift", "bit_rshift"):
        f = tcls.methods.get(name)
        if f is None:
            ctx.ob("a.dispatch", prog.func("table.Table._table_elementwise_operation"), f"table-{name}", False, "", None,
                   message=f"Table does not define {name}: t.{name}(1) falls back to Vector.{name}, whose kernel treats the table as a "
                           f"vector of columns - the columns come back unnamed (table-with-scalar arithmetic keeps every column name)")
            continue
        it_, rets_ = _returns_of(prog, f)
        TS = ("param", f.params[0])
        probs_ = []
        if not rets_ or it_.falls_through:
            probs_.append("does not return the kernel's result on every path")
        for e in rets_:
            t = e.term
            if not (t[0] == "call" and t[1] == ("attr", TS, "_table_elementwise_operation") and len(t[2]) >= 2 and t[2][0] == ("param", f.params[1])):
                probs_.append(f"returns `{show(t, it_)[:70]}`, not self._table_elementwise_operation({f.params[1]}, ...)")
                continue
            opt = t[2][1]
            if opt in (("attr", ("name", "Vector"), name),):
                continue
            got = _apply_op(prog, it_, f, opt, (_A, _B))
            if got != ("call", ("attr", _A, name), (_B,), ()):
                probs_.append(f"the operator argument `{show(opt, it_)[:40]}` is not the column's own {name}")
        ctx.ob("a.dispatch", f, "dispatch", not probs_, f"Table.{name}: column.{name}(other) for every column", f.node,
               message=f"{f.qualname}: " + "; ".join(probs_[:2]))
    for name, uop in (("__neg__", ("un", "USub", _A)), ("__pos__", ("un", "UAdd", _A)), ("__abs__", ("call", ("name", "abs"), (_A,), ())),
                      ("__invert__", ("un", "Invert", _A))):
        f = tcls.methods.get(name)
        if f is None:
            ctx.ob("a.dispatch", prog.func("table.Table._table_elementwise_operation"), f"table-{name}", False, "", None,
                   message=f"Table does not define {name}: the unary operator falls back to Vector.{name}, which iterates the table's rows - "
                           f"the result comes back transposed")
            continue
        check(f, "_table_unary_operation", None, uop, f"Table.{name}: applied column by column", nargs=1)
    # the unary table kernel: op_func(col) for every column of self
    uk = tcls.methods.get("_table_unary_operation")
    if uk is not None:
        from ..sites2 import all_sites2, comp_parts, leaves
        USELF, UOP = ("param", uk.params[0]), ("param", uk.params[1])
        ucols = ("call", ("attr", USELF, "cols"), (), ())
        up = []
        nn = 0
        for st in all_sites2(prog):
            if st.top is not uk or st.kind != "Table":
                continue
            nn += 1
            for d in leaves(st.data):
                cp = comp_parts(st.it, d)
                if cp is None or len(cp[0]) != 1 or cp[1] or st.it.loops[cp[0][0]].iter not in (ucols, ("attr", USELF, "_underlying")) \
                        or cp[2] != ("call", UOP, (("elem", st.it.loops[cp[0][0]].iter, cp[0][0]),), ()):
                    up.append(f"`{st.sh(d, 50)}` is not op_func(col) for every column of self")
        ctx.ob("d.table-arithmetic", uk, "unary", not up and nn > 0, "unary table kernel maps op_func over all columns", uk.node,
               message="; ".join(up) or "no Table result in _table_unary_operation")
    # _unary_operation kernel
    f, sites = _kernel_sites(prog, "vector.Vector._unary_operation")
    from ..symx import NONE as SNONE
    SELF = ("param", f.params[0])
    opf = ("param", f.params[1])
    problems = []
    n = 0
    for s_, d, cp in sites:
        n += 1
        if cp is None or len(cp[0]) != 1:
            problems.append(f"result data `{s_.sh(d, 50)}` is not one value per element")
            continue
        (L,), extra, v, ev = cp
        lp = s_.it.loops[L]
        x = ("elem", lp.iter, L)
        if lp.iter not in (SELF, ("attr", SELF, "_underlying")):
            problems.append(f"iterates `{show(lp.iter, s_.it)[:40]}`, not self")
        if extra:
            problems.append("elements are filtered")
        if _none_kept(v, (x,)) != ("call", opf, (x,), ()):
            problems.append(f"element is `{show(v, s_.it)[:70]}`, expected `None if x is None else {f.params[1]}(x)`")
    if not n:
        problems.append("no result vector is built")
    ctx.ob("c.pairing", f, "unary-kernel", not problems, "unary kernel: None if x is None else op_func(x) over all elements", f.node,
           message="the unary kernel does not apply op_func to every element of self (None kept): " + "; ".join(problems[:2]))


# ---------------------------------------------------------------------------------------------
def _len_guarded(prog, f: FuncInfo, call: ast.Call) -> bool:
    """A raising `!=` test that dominates the zip and mentions (a length of) each zipped operand."""
    cfg = cfg_of(f)
    d = Defs(f)
    try:
        node = cfg.enclosing_stmt_node(prog, call)
    except AnalysisError:
        return False

    def roots(e: ast.AST, depth=0) -> Set[str]:
        out = set()
        for n in ast.walk(e):
            if isinstance(n, ast.Name):
                out.add(n.id)
                if depth < 3:
                    for v in d.values(n.id):
                        out |= roots(v, depth + 1)
        return out
    args = [a for a in call.args]
    want = []
    for a in args:
        r = {n.id for n in ast.walk(a) if isinstance(n, ast.Name)}
        want.append(r - {"self"} if r - {"self"} else r)
    for t in cfg.nodes:
        if t.kind != "test" or not cfg.dominates(t, node):
            continue
        tsucc = [s for s, lab in t.succ if lab == "T"]
        if not (tsucc and all(isinstance(s.ast, ast.Raise) for s in tsucc)):
            continue
        e = t.ast
        if isinstance(e, ast.Compare) and len(e.ops) == 1 and isinstance(e.ops[0], ast.NotEq) and "len(" in short(e):
            mentioned = roots(e)
            if all(w & mentioned for w in want):
                return True
    return False


OPERAND_ZIP_FUNCS = {
    "vector.Vector._elementwise_operation", "vector.Vector._elementwise_compare", "vector._Date._elementwise_compare",
    "table.Table._elementwise_compare", "vector.Vector.__radd__", "vector._Date.__add__", "vector.Vector.__matmul__",
    "vector.Vector.__rmatmul__", "table.Table.__lshift__", "table.Table._table_elementwise_operation",
    "vector.Vector.__getitem__",
}


def _one_per_column(f: FuncInfo, c: ast.Call) -> bool:
    """zip(SEQ, local) where the local is tuple/list(<expr> for v in SEQ): same length by construction."""
    if len(c.args) != 2 or not isinstance(c.args[1], ast.Name):
        return False
    from ..core import Program
    return False


def _one_per_column_at(prog, f: FuncInfo, c: ast.Call) -> bool:
    if len(c.args) != 2 or not isinstance(c.args[1], ast.Name):
        return False
    res = Resolver(prog, f)
    defs = res.resolve(c.args[1], c)
    if not defs:
        return False
    for v in defs:
        if isinstance(v, str):
            return False
        cm = comp_of(v)
        if not (cm is not None and len(cm.generators) == 1 and not cm.generators[0].ifs
                and short(cm.generators[0].iter) == short(c.args[0])):
            return False
    return True


def _one_per_item_symx(prog, f: FuncInfo, c: ast.Call) -> bool:
    """the same on the symx event log: the second operand of this zip is a collection that received exactly one element, on every
    iteration (no condition of its own), of one loop over the first operand - an append loop, a comprehension, tuple() of either"""
    from ..sites2 import interp_of, strip_seq
    from ..symx import elements
    if len(c.args) != 2:
        return False
    it = interp_of(prog, f)
    for lp in it.loops.values():
        n_ = lp.node
        if not (getattr(n_, "iter", None) is c or any(g.iter is c for g in getattr(n_, "generators", []))):
            continue
        dom = lp.domain if lp.domain is not None else None
        if dom is None or dom[0] != "tuple" or len(dom[1]) != 2:
            continue
        first, second = dom[1]
        coll = strip_seq(it, second)
        if coll[0] != "obj":
            continue
        try:
            els = elements(it, coll)
        except Exception:
            return False
        if len(els) != 1 or not els[0].loops:
            continue
        src = it.loops[els[0].loops[-1]]
        if src.iter == first and tuple(els[0].conds) == tuple(src.conds) and len(els[0].loops) == len(src.parents) + 1 \
                and not src.breaks and not src.returns:
            return True
    return False


def _zips(ctx) -> None:
    prog = ctx.prog
    other = 0
    for q, f in sorted(prog.functions.items()):
        if isinstance(f.node, ast.Lambda):
            continue
        if q not in OPERAND_ZIP_FUNCS:
            other += sum(1 for st in f.body for n in walk_no_nested(st)
                         if isinstance(n, ast.Call) and isinstance(n.func, ast.Name) and n.func.id == "zip")
            continue
        own = [n for st in f.body for n in walk_no_nested(st) if isinstance(n, ast.Call)]
        k = 0
        for c in own:
            if not (isinstance(c.func, ast.Name) and c.func.id == "zip" and len(c.args) >= 2):
                continue
            k += 1
            args = ",".join(short(a, 30) for a in c.args)
            strict = kwarg(c, "strict")
            ok, why = False, ""
            if strict is not None and short(strict) == "True":
                ok, why = True, "strict=True"
            elif _len_guarded(prog, f, c):
                ok, why = True, "dominated by a raising length comparison"
            elif (q, args) in ZIP_WHITELIST:
                ok, why = True, "table: " + ZIP_WHITELIST[(q, args)]
            elif _one_per_column_at(prog, f, c) or _one_per_item_symx(prog, f, c):
                ok, why = True, "second operand is built one per column of the first"
            ctx.ob("b.no-truncation", f, f"zip:{k}:{args}", ok, f"zip({args}): {why}", c,
                   message=f"{q}: zip({args}) silently truncates to the shorter operand: it is neither strict=True nor preceded by a "
                           f"raising length comparison of these operands")


def _kernel_sites(prog, q):
    """(site, comprehension parts) for every vector result built in function q (closures / later helpers in line)."""
    from ..sites2 import all_sites2, comp_parts, leaves
    f = prog.func(q)
    out = []
    for s in all_sites2(prog):
        if s.top is not f or s.kind not in ("Vector", "cls"):
            continue
        for d in leaves(s.data):
            out.append((s, d, comp_parts(s.it, d)))
    return f, out


def _length_first(ctx) -> None:
    """Every result whose elements pair self with a vector / sequence operand is produced only where the lengths were compared
    (a raising `len(self) != len(other)` on the way) - decided on the symx event log."""
    from ..symx import flatten_conds, show
    ctx.extra.setdefault("note", "zip() calls outside the operator code (assignment, renames, display, joins) belong to C08/C09/C20")
    prog = ctx.prog
    from ..sites2 import interp_of
    from ..symx import subterms
    for q in ("vector.Vector._elementwise_operation", "vector.Vector.__radd__"):
        f = prog.func(q)
        it = interp_of(prog, f)
        SELF = ("param", f.params[0])
        others = (("param", f.params[1]), ("call", ("attr", SELF, "_check_duplicate"), (("param", f.params[1]),), ()))
        problems = []
        for e in it.events:
            if e.kind != "return" or e.depth != 0:
                continue
            fc = flatten_conds(e.conds)
            if any(pol and any(x[0] == "call" and x[1][0] == "attr" and x[1][2] == "ndims" for x in subterms(t)) for t, pol in fc):
                continue                                         # table cases A / B

            # by kind of operand (three-valued evaluation of the path condition, serifscan/tv.py): a result that a vector or a plain
            # sequence can reach must lie behind the length comparison; a result only a scalar (a number, a string: one cell) reaches
            # needs none
            from ..tv import tv as _tv
            KN = {"Vector": {"Vector", "Iterable", "Sized", "Collection", "Sequence"}, "list": {"list", "Iterable", "Sized", "Collection", "Sequence"},
                  "int": {"int"}, "str": {"str", "Iterable", "Sized", "Collection", "Sequence"}}
            ALL = {"Vector", "Table", "Row", "list", "tuple", "str", "bytes", "bytearray", "int", "float", "complex", "Enum", "Mapping", "dict",
                   "Iterable", "Iterator", "Sized", "Collection", "Sequence", "range", "set"}

            def reach(kind):
                def atom(x):
                    if x[0] == "call" and x[1] == ("name", "isinstance") and len(x[2]) == 2 and x[2][0] in others:
                        names = {y[1] for y in subterms(x[2][1]) if y[0] == "name"}
                        if names & KN[kind]:
                            return True
                        return False if names and names <= ALL else None
                    return None
                return not any(_tv(t, atom) is (not pol) for t, pol in fc)
            in_seq = reach("Vector") or reach("list")
            if in_seq:
                ln_s = ("call", ("name", "len"), (SELF,), ())
                checked = any(pol and t[0] == "cmp" and t[1] == "Eq" and ln_s in (t[2], t[3])
                              and any(("call", ("name", "len"), (o,), ()) in (t[2], t[3]) for o in others) for t, pol in fc)
                if not checked:
                    # (two branches that compute the values and ONE return behind them: the comparison is not in the return's own path
                    #  condition any more - it is on the way when, for each kind of sequence operand that reaches the return, an earlier
                    #  raise sits under conditions that all hold for that kind plus the unequal lengths)
                    def on_the_way(kind):
                        def atom(x):
                            if x[0] == "call" and x[1] == ("name", "isinstance") and len(x[2]) == 2 and x[2][0] in others:
                                names = {y[1] for y in subterms(x[2][1]) if y[0] == "name"}
                                if names & KN[kind]:
                                    return True
                                return False if names and names <= ALL else None
                            return None
                        for r_ in it.events:
                            if r_.kind != "raise" or r_.seq > e.seq or r_.depth != 0:
                                continue
                            rc = flatten_conds(r_.conds)
                            is_len = lambda t, pol: (not pol) and t[0] == "cmp" and t[1] == "Eq" and ln_s in (t[2], t[3]) \
                                and any(("call", ("name", "len"), (o,), ()) in (t[2], t[3]) for o in others)
                            if sum(1 for t, pol in rc if is_len(t, pol)) == 1 and all(is_len(t, pol) or _tv(t, atom) is pol for t, pol in rc):
                                return True
                        return False
                    checked = all(on_the_way(k_) for k_ in ("Vector", "list") if reach(k_))
                if not checked:
                    problems.append(f"`return {show(e.term, it)[:60]}` (line {getattr(e.node, 'lineno', '?')}) returns a result for a "
                                    f"vector/sequence operand before `len(self) != len({f.params[1]})` has been checked: different lengths "
                                    f"would not raise")
            elif not (reach("int") or reach("str")):
                problems.append(f"`return {show(e.term, it)[:60]}` (line {getattr(e.node, 'lineno', '?')}) is reached by no operand form the "
                                f"evaluation knows (vector, plain sequence, number, string)")
        seen = set()
        problems = [p_ for p_ in problems if not (p_ in seen or seen.add(p_))]
        ctx.ob("b.length-before-result", f, "returns", not problems, "every result for a sequence operand follows the length comparison",
               f.node, message="; ".join(problems[:2]))
        # a mapping is ONE operand ('%(a)s' % {'a': 1}), never a sequence of operands: wherever strings are excluded from the
        # elementwise-sequence form, mappings are too
        if q.endswith("._elementwise_operation"):
            excl = []
            for e in [x_ for x_ in it.events if x_.kind == "return" and x_.depth == 0]:
                for t, pol in flatten_conds(e.conds):
                    for x in subterms(t):
                        if x[0] == "call" and x[1] == ("name", "isinstance") and len(x[2]) == 2 and x[2][0] in others and x[2][1][0] == "tuple":
                            names = {y[1] for y in x[2][1][1] if y[0] == "name"}
                            if "str" in names:
                                excl.append(names)
            okm = bool(excl) and all(({"Mapping", "dict"} & n_) for n_ in excl)
            ctx.ob("b.length-before-result", f, "mapping-is-scalar", okm, "mappings are excluded from the sequence form like strings", f.node,
                   message="the arithmetic kernel treats a mapping operand as a sequence of operands (its keys): "
                           "Vector(['%(a)s']) % {'a': 1} raises 'Length mismatch' or pairs the elements with the keys")


# ---------------------------------------------------------------------------------------------
def _pairing(ctx) -> None:
    from ..symx import NONE as SNONE
    from ..symx import flatten_conds, show
    prog = ctx.prog
    f, sites = _kernel_sites(prog, "vector.Vector._elementwise_operation")
    SELF = ("param", f.params[0])
    others = (("param", f.params[1]), ("call", ("attr", SELF, "_check_duplicate"), (("param", f.params[1]),), ()))
    opf = ("param", f.params[2])
    seen_comps = {}
    seen_fallbacks = [0]
    for s, d, cp in sites:
        if cp is None or len(cp[0]) != 1:
            continue
        it = s.it
        (L,), extra, v, ev = cp
        key = (id(it), d)
        if key in seen_comps:
            continue
        lp = it.loops[L]
        problems = []
        # the (x, y) fallback of incompatible operands: a None on either side stays None there too (C06: None propagates through
        # EVERY elementwise result - dates - [1, 2, 3] gave (None, 2))
        if lp.domain is not None and lp.domain[0] == "tuple" and len(lp.domain[1]) == 2:
            fx, fy = ("elem", lp.domain[1][0], L), ("elem", lp.domain[1][1], L)
            pair = ("tuple", (fx, fy))
            if v == pair or _none_kept(v, (fx, fy)) == pair:
                n_fb = seen_fallbacks[0] = seen_fallbacks[0] + 1
                ctx.ob("c.pairing", f, f"fallback:{n_fb}", v != pair, "incompatible-operand fallback: None kept, else the (x, y) pair", ev.node,
                       message="the incompatible-operand fallback pairs every position, a None element included: the result holds "
                               "(None, y) where every other elementwise result has None")
                continue
        if v[0] == "tuple":
            continue
        if lp.domain is not None and lp.domain[0] == "tuple":
            doms = lp.domain[1]
            if not (len(doms) == 2 and doms[0] == SELF and doms[1] in others):
                problems.append(f"operands paired by `{show(lp.iter, it)[:50]}`, expected zip(self, {f.params[1]}, strict=True)")
                x = y = None
            else:
                x, y = ("elem", doms[0], L), ("elem", doms[1], L)
                want = ("call", opf, (x, y), ())
                wxs = (x, y)
                wtxt = "None if x is None or y is None else op_func(x, y)"
        elif lp.iter in (SELF, ("attr", SELF, "_underlying")):
            x = ("elem", lp.iter, L)
            want = None
            wtxt = f"None if x is None else op_func(x, {f.params[1]})"
            pl = _none_kept(v, (x,))
            if not (pl is not None and pl[0] == "call" and pl[1] == opf and len(pl[2]) == 2 and pl[2][0] == x and pl[2][1] in others
                    and not pl[3]):
                problems.append(f"element is `{show(v, it)[:80]}`, expected `{wtxt}`")
        else:
            if not any(t == opf for t in __import__("serifscan.symx", fromlist=["subterms"]).subterms(v)):
                continue                                    # not a kernel computation
            problems.append(f"kernel iterates `{show(lp.iter, it)[:50]}`, not self (paired with the other operand)")
            want = None
            wtxt = "?"
        if extra:
            problems.append("elements are filtered: the result would be shorter than the operands")
        if want is not None and _none_kept(v, wxs) != want:
            problems.append(f"element is `{show(v, it)[:80]}`, expected `{wtxt}`")
        seen_comps[key] = True
        ctx.ob("c.pairing", f, f"kernel:{len(seen_comps)}", not problems, wtxt, ev.node, message="; ".join(problems))
    if len(seen_comps) < 2:
        raise AnalysisError(f"_elementwise_operation: expected a paired and a scalar kernel, found {len(seen_comps)}")
    # __radd__
    f, sites = _kernel_sites(prog, "vector.Vector.__radd__")
    SELF = ("param", f.params[0])
    others = (("param", f.params[1]), ("call", ("attr", SELF, "_check_duplicate"), (("param", f.params[1]),), ()))
    from ..sites2 import interp_of
    it0 = interp_of(prog, f)
    rets = [e for e in it0.events if e.kind == "return" and e.depth == 0]
    if not sites:
        # delegation form: must go through the kernel with a verified _reverse_add
        ok = bool(rets) and prog.has_func("vector._reverse_add") and all(
            r.term[0] == "call" and r.term[1] == ("attr", SELF, "_elementwise_operation") and len(r.term[2]) == 2
            and r.term[2][0] in others and r.term[2][1] == ("name", "_reverse_add") for r in rets)
        ctx.ob("c.pairing", f, "radd", ok, "__radd__ delegates every operand form to the kernel with _reverse_add", f.node,
               message="__radd__ does not compute <other element> + <self element> for every operand form: "
                       + "; ".join(f"`{show(r.term, it0)[:60]}`" for r in rets))
        return
    k = 0
    seen_comps = {}
    for s, d, cp in sites:
        it = s.it
        key = (id(it), d)
        if key in seen_comps:
            continue
        seen_comps[key] = True
        k += 1
        problems = []
        if cp is None or len(cp[0]) != 1:
            problems.append(f"result data `{s.sh(d, 50)}` is not one value per element")
            ctx.ob("c.pairing", f, f"radd:{k}", False, "", s.node, message="; ".join(problems))
            continue
        (L,), extra, v, ev = cp
        lp = it.loops[L]
        if lp.domain is not None and lp.domain[0] == "tuple":
            doms = lp.domain[1]
            if not (len(doms) == 2 and doms[0] in others and doms[1] == SELF):
                problems.append(f"operands paired by `{show(lp.iter, it)[:50]}`, expected zip({f.params[1]}, self, strict=True)")
                want = None
            else:
                x, y = ("elem", doms[0], L), ("elem", doms[1], L)
                want = ("bin", "Add", x, y)
                wxs = (x, y)
        else:
            if lp.iter not in (SELF, ("attr", SELF, "_underlying")):
                problems.append(f"scalar branch iterates `{show(lp.iter, it)[:40]}`")
            x = ("elem", lp.iter, L)
            want = None
            pl = _none_kept(v, (x,))
            if not (pl is not None and pl[0] == "bin" and pl[1] == "Add" and pl[2] in others and pl[3] == x):
                problems.append(f"the element operation is `{show(v, it)[:70]}`, expected `None if x is None else {f.params[1]} + x` "
                                f"(other operand on the LEFT)")
        if extra:
            problems.append("elements are filtered")
        if want is not None and _none_kept(v, wxs) != want:
            problems.append(f"the element operation is `{show(v, it)[:70]}`, expected `None if either is None else <other element> + <self "
                            f"element>` (other operand on the LEFT)")
        ctx.ob("c.pairing", f, f"radd:{k}", not problems, "<other element> + <self element>, None kept", ev.node, message="; ".join(problems))
    if k < 2:
        raise AnalysisError(f"__radd__: expected a paired and a scalar element computation, found {k}")


def _recursion_order(ctx) -> None:
    """The 2-D branches of the two vector kernels recurse column by column in the WRITTEN operand order: with the table on the left
    every column is the receiver and the other operand the argument (C + other); with the table on the right `self` is the receiver
    and the column the argument (self + C) - swapped, v - T computes T - v."""
    from ..sites2 import interp_of
    from ..symx import show, subterms
    prog = ctx.prog
    for q, kname in (("vector.Vector._elementwise_operation", "_elementwise_operation"), ("vector.Vector._elementwise_compare", "_elementwise_compare")):
        f = prog.func(q)
        it = interp_of(prog, f)
        SELF, OTHER = ("param", f.params[0]), ("param", f.params[1])
        oth = (OTHER, ("call", ("attr", SELF, "_check_duplicate"), (OTHER,), ()))
        scols = ("call", ("attr", SELF, "cols"), (), ())
        ocols = tuple(("call", ("attr", o, "cols"), (), ()) for o in oth)
        probs, n = [], 0
        seen = set()
        for e in it.events:
            for t in (e.term, e.value):
                if t is None:
                    continue
                for x in subterms(t):
                    if not (x[0] == "call" and x[1][0] == "attr" and x[1][2] == kname and x[2]) or x in seen:
                        continue
                    seen.add(x)
                    recv, arg = x[1][1], x[2][0]
                    col_of = lambda t_: "self" if (t_[0] == "elem" and t_[1] in (scols, ("attr", SELF, "_underlying"))) else \
                        "other" if (t_[0] == "elem" and t_[1] in ocols) else None
                    if col_of(recv) == "self" or col_of(arg) == "self":
                        n += 1
                        if not (col_of(recv) == "self" and arg in oth):
                            probs.append(f"table on the left: `{show(x, it)[:70]}` is not <column>.{kname}(other, ...)")
                    elif col_of(recv) == "other" or col_of(arg) == "other":
                        n += 1
                        if not (recv == SELF and col_of(arg) == "other"):
                            probs.append(f"table on the right: `{show(x, it)[:70]}` is not self.{kname}(<column>, ...): the operands are "
                                         f"swapped - v - T computes T - v")
        ctx.ob("a.dispatch", f, "recursion-order", not probs and n >= 2, f"{n} column-by-column recursion(s) keep the written operand order", f.node,
               message=f"{q}: " + ("; ".join(probs[:2]) or "the column-by-column recursions over a 2-D operand were not found"))


def _table(ctx) -> None:
    """Every Table built by the table kernel holds op_func(col, other) for every column of self, or op_func(left, right) for the
    zipped columns of both tables where the widths were compared first - on the symx sites of the function."""
    from ..sites2 import all_sites2, comp_parts, leaves
    from ..symx import flatten_conds, show
    prog = ctx.prog
    f = prog.func("table.Table._table_elementwise_operation")
    SELF = ("param", f.params[0])
    OTHER, opf = ("param", f.params[1]), ("param", f.params[2])
    cols_s = ("call", ("attr", SELF, "cols"), (), ())
    cols_o = ("call", ("attr", OTHER, "cols"), (), ())
    scalar_p, table_p = [], []
    n_scalar = n_table = 0
    for st in all_sites2(prog):
        if st.top is not f or st.kind != "Table":
            continue
        it = st.it
        for d in leaves(st.data):
            cp = comp_parts(it, d)
            if cp is None or len(cp[0]) != 1:
                scalar_p.append(f"result `{st.sh(d, 50)}` is not one column per column of self")
                n_scalar += 1
                continue
            (L,), extra, v, ev = cp
            lp = it.loops[L]
            dom = lp.domain
            paired = dom is not None and dom[0] == "tuple"
            if paired:
                n_table += 1
                doms = tuple(dom[1])
                # enumerate(zip(a, b)) and zip(a, b) both give the pair domain
                if doms[-2:] != (cols_s, cols_o):
                    table_p.append(f"table ⊙ table pairs `{show(lp.iter, it)[:50]}`, expected zip(self.cols(), {f.params[1]}.cols())")
                    continue
                x, y = ("elem", cols_s, L), ("elem", cols_o, L)
                if v != ("call", opf, (x, y), ()):
                    table_p.append(f"the per-column operation is `{show(v, it)[:60]}`, expected {f.params[2]}(left_col, right_col)")
                if extra:
                    table_p.append("columns are filtered")
                fc = flatten_conds(ev.conds)
                ln = lambda c: ("call", ("name", "len"), (c,), ())
                if not any(pol and t[0] == "cmp" and t[1] == "Eq" and {t[2], t[3]} == {ln(cols_s), ln(cols_o)} for t, pol in fc):
                    table_p.append("no width check `len(self.cols()) != len(other.cols())` precedes the pairing")
            else:
                n_scalar += 1
                if lp.iter != cols_s:
                    scalar_p.append(f"scalar case iterates `{show(lp.iter, it)[:40]}`, not self.cols()")
                    continue
                x = ("elem", cols_s, L)
                if v != ("call", opf, (x, OTHER), ()):
                    scalar_p.append(f"scalar case computes `{show(v, it)[:60]}`, expected {f.params[2]}(col, {f.params[1]})")
                if extra:
                    scalar_p.append("columns are filtered")
    if not n_scalar:
        scalar_p.append("no table ⊙ scalar result found")
    if not n_table:
        table_p.append("table ⊙ table does not pair self.cols() with other.cols()")
    ctx.ob("d.table-arithmetic", f, "scalar", not scalar_p, "table ⊙ scalar maps the vector operation over all columns", f.node,
           message="; ".join(scalar_p[:2]))
    ctx.ob("d.table-arithmetic", f, "table", not table_p, "table ⊙ table pairs columns after a width check", f.node,
           message="; ".join(table_p[:2]))


# ---------------------------------------------------------------------------------------------
def _none_kept(v, xs, conds=()):
    """payload term if `v` is None exactly when one of the element terms xs is None (any spelling of the test), else None.
    `conds`: the path condition of the site - an operand it has typed (isinstance(other, int)) is not None."""
    import itertools
    from ..symx import NONE as SNONE
    from ..symx import flatten_conds, reduce_ifexp, simplify
    typed = {("cmp", "Is", t[2][0], SNONE): False for t, pol in flatten_conds(conds)
             if pol and t[0] == "call" and t[1] == ("name", "isinstance") and len(t[2]) == 2}
    payload = None
    for vals in itertools.product((False, True), repeat=len(xs)):
        atoms = dict(typed)
        atoms.update({("cmp", "Is", x, SNONE): b for x, b in zip(xs, vals)})
        r = reduce_ifexp(simplify(v, atoms), atoms)
        if any(vals):
            if r != SNONE:
                return None
        else:
            payload = r
    return payload


def _elementwise_over_self(prog, f: FuncInfo):
    """[(interp, loop, value term, extra, problems)] for every Vector result of f: one value per element of self."""
    from ..symx import show
    f_, sites = _kernel_sites(prog, f.qualname)
    SELF = ("param", f.params[0])
    out = []
    for s_, d, cp in sites:
        problems = []
        if cp is None or len(cp[0]) != 1:
            out.append((s_, None, None, [f"result data `{s_.sh(d, 50)}` is not one value per element"]))
            continue
        (L,), extra, v, ev = cp
        lp = s_.it.loops[L]
        if extra:
            problems.append("elements are filtered")
        out.append((s_, lp, v, problems))
    return out


def _wrappers(ctx) -> None:
    from ..sites2 import interp_of
    from ..symx import NONE as SNONE
    from ..symx import flatten_conds, show, subterms
    prog = ctx.prog
    helpers = {"before": ("partition", 0), "after": ("partition", 2), "before_last": ("rpartition", 0), "after_last": ("rpartition", 2)}
    for cname, pytype in (("_String", str), ("_Date", _dt.date)):
        c = prog.cls(cname)
        for name, f in sorted(c.methods.items()):
            if name.startswith("_") or name in ("eomonth",):
                continue
            problems = []
            if not hasattr(pytype, name) and name not in helpers:
                problems.append(f"{pytype.__name__} has no method {name}")
            SELF = ("param", f.params[0])
            it = interp_of(prog, f)
            rets = [e for e in it.events if e.kind == "return" and e.depth == 0]
            res = _elementwise_over_self(prog, f)
            if not res or len(rets) != len(res) or it.falls_through:
                problems.append("does not return one element-wise Vector")
            for s_, lp, v, pr in res:
                problems += pr
                if lp is None:
                    continue
                if s_.name_given or s_.dtype is not None:
                    pass
                if lp.iter not in (SELF, ("attr", SELF, "_underlying")):
                    problems.append(f"iterates `{show(lp.iter, s_.it)[:40]}`, not the elements of self")
                    continue
                x = ("elem", lp.iter, lp.id)
                call = _none_kept(v, (x,))
                if call is None:
                    problems.append(f"element `{show(v, s_.it)[:60]}` does not keep None as None")
                    continue
                if name in helpers:
                    m, idx = helpers[name]
                    want = ("sub", ("call", ("attr", x, m), (("param", f.params[1]),), ()), ("const", "int", idx))
                    if call != want:
                        problems.append(f"element is `{show(call, s_.it)[:60]}`, expected `s.{m}({f.params[1]})[{idx}]`")
                else:
                    va, kwa = f.node.args.vararg, f.node.args.kwarg
                    ok = call[0] == "call" and call[1] == ("attr", x, name)
                    if ok and va is not None and kwa is not None:
                        ok = call[2] == (("star", ("param", va.arg)),) and tuple(call[3]) == (("**", ("param", kwa.arg)),)
                    elif ok:
                        ok = call[2] == () and tuple(call[3]) == ()
                    if not ok:
                        problems.append(f"element is `{show(call, s_.it)[:60]}`, expected `s.{name}(<the caller's arguments>)` (the method "
                                        f"of the wrapper's own name)")
            ctx.ob("e.wrappers", f, "wrapper", not problems, f"{cname}.{name}: element-wise {pytype.__name__}.{name}, None kept", f.node,
                   message=f"{cname}.{name}: " + "; ".join(problems[:2]))
    # MethodProxy: __init__ stores vector and method name; __call__ applies getattr(elem, name)(*args, **kwargs) per element
    fi = prog.func("vector.MethodProxy.__init__")
    iti = interp_of(prog, fi)
    PS = ("param", fi.params[0])
    stores = {e.term[2]: e.value for e in iti.events if e.kind == "store" and e.term[0] == "attr" and e.term[1] == PS and not e.conds}
    vec_attr = [a for a, v in stores.items() if v == ("param", fi.params[1])]
    nm_attr = [a for a, v in stores.items() if v == ("param", fi.params[2])]
    ctx.ob("e.wrappers", fi, "method-proxy-init", bool(vec_attr and nm_attr), "proxy stores the vector and the method NAME", fi.node,
           message="MethodProxy no longer stores the vector and the method name")
    f = prog.func("vector.MethodProxy.__call__")
    problems = []
    va, kwa = f.node.args.vararg, f.node.args.kwarg
    SELF = ("param", f.params[0])
    res = _elementwise_over_self(prog, f)
    if not res or va is None or kwa is None or not vec_attr or not nm_attr:
        problems.append("does not iterate all elements of the proxied vector with *args, **kwargs")
    else:
        vec = ("attr", SELF, vec_attr[0])
        for s_, lp, v, pr in res:
            problems += pr
            if lp is None:
                continue
            if lp.iter not in (vec, ("attr", vec, "_underlying")):
                problems.append(f"iterates `{show(lp.iter, s_.it)[:40]}`, not the proxied vector's elements")
                continue
            x = ("elem", lp.iter, lp.id)
            want = ("call", ("call", ("name", "getattr"), (x, ("attr", SELF, nm_attr[0])), ()), (("star", ("param", va.arg)),),
                    (("**", ("param", kwa.arg)),))
            if _none_kept(v, (x,)) != want:
                problems.append(f"element is `{show(v, s_.it)[:80]}`; expected None for a None element and "
                                f"`getattr(elem, self.{nm_attr[0]})(*{va.arg}, **{kwa.arg})` (the method looked up ON THE ELEMENT, by the "
                                f"proxied name) otherwise")
    ctx.ob("e.wrappers", f, "method-proxy", not problems, "MethodProxy applies getattr(elem, name)(*args, **kwargs), None kept", f.node,
           message="MethodProxy.__call__: " + "; ".join(problems[:2]))
    # Vector.__getattr__
    f = prog.func("vector.Vector.__getattr__")
    SELF, NM = ("param", f.params[0]), ("param", f.params[1])
    it = interp_of(prog, f)
    rets = [e for e in it.events if e.kind == "return" and e.depth == 0]
    problems = []
    proxies = [e for e in rets if e.term[0] == "call" and e.term[1] == ("name", "MethodProxy")]
    others_ = [e for e in rets if e not in proxies]
    if not proxies or any(e.term[2] != (SELF, NM) or e.term[3] for e in proxies):
        problems.append(f"methods do not give MethodProxy(self, {f.params[1]})")
    for e in proxies:
        if not any(pol and t[0] == "call" and t[1] == ("name", "callable") for t, pol in flatten_conds(e.conds)):
            problems.append("a MethodProxy is returned without the class attribute being callable")
    res = _elementwise_over_self(prog, f)
    if len(res) != len(others_) or not res:
        problems.append("a property does not give one element-wise Vector")
    for s_, lp, v, pr in res:
        problems += pr
        if lp is None:
            continue
        x = ("elem", lp.iter, lp.id)
        if lp.iter not in (SELF, ("attr", SELF, "_underlying")):
            problems.append(f"iterates `{show(lp.iter, s_.it)[:40]}`, not self")
        elif _none_kept(v, (x,)) != ("call", ("name", "getattr"), (x, NM), ()):
            problems.append(f"property element is `{show(v, s_.it)[:70]}`, expected `getattr(x, {f.params[1]}) if x is not None else None`")
    ctx.ob("e.wrappers", f, "getattr", not problems, "callable class attribute -> MethodProxy(self, name); property -> per-element getattr",
           f.node, message="Vector.__getattr__: " + "; ".join(problems[:2]))
    # _Date.__add__
    f = prog.func("vector._Date.__add__")
    SELF, OTHER = ("param", f.params[0]), ("param", f.params[1])
    it = interp_of(prog, f)
    rets = [e for e in it.events if e.kind == "return" and e.depth == 0]
    problems = []
    def is_other(t) -> bool:
        """the other operand, possibly normalised: other / Vector(other) / (Vector(other) if <plain sequence> else other)"""
        if t == OTHER:
            return True
        if t[0] == "call" and t[1] == ("name", "Vector") and len(t[2]) == 1 and not t[3]:
            return is_other(t[2][0])
        if t[0] == "obj" and it.objs[t[1]].kind in ("list", "tuple") and isinstance(it.objs[t[1]].node, ast.Call) \
                and len(it.objs[t[1]].init) == 1:
            return is_other(it.objs[t[1]].init[0])          # list(other): the same items, materialised once
        if t[0] == "ifexp":
            return is_other(t[2]) and is_other(t[3])
        return False
    fallback = [e for e in rets if e.term[0] == "call" and e.term[1] == ("attr", ("call", ("name", "super"), (), ()), "__add__")
                and len(e.term[2]) == 1 and is_other(e.term[2][0]) and not e.term[3]]
    if not fallback or it.falls_through:
        problems.append("no fallback to super().__add__(other)")
    returned = {lf for e in rets for lf in __import__("serifscan.sites2", fromlist=["leaves"]).leaves(e.term)}
    res = [r for r in _elementwise_over_self(prog, f) if r[0].call in returned]
    if len(res) + len(fallback) != len(rets):
        problems.append("a result is neither day arithmetic over the elements nor the generic kernel")
    for s_, lp, v, pr in res:
        problems += pr
        if lp is None:
            continue
        L = lp.id
        und = ("attr", SELF, "_underlying")
        if lp.domain is not None and lp.domain[0] == "tuple":
            doms = tuple(lp.domain[1])
            if len(doms) != 2 or doms[0] not in (SELF, und) or not (is_other(doms[1]) or (doms[1][0] == "attr" and doms[1][2] == "_underlying"
                                                                                  and is_other(doms[1][1]))):
                problems.append(f"pairs `{show(lp.iter, s_.it)[:50]}`, expected zip(self, other)")
                continue
            x, y = ("elem", doms[0], L), ("elem", doms[1], L)
            xs = (x, y)
        elif lp.iter in (SELF, und):
            x = ("elem", lp.iter, L)
            ys = [t for t in __import__("serifscan.symx", fromlist=["subterms"]).subterms(v) if is_other(t) and t[0] != "call"]
            y = OTHER if not ys else max(ys, key=lambda t: len(repr(t)))
            xs = (x,)
        else:
            problems.append(f"iterates `{show(lp.iter, s_.it)[:40]}`, not self")
            continue
        # n days later: date.fromordinal(s.toordinal() + n), or s + timedelta(days=n) (which also keeps the time of a datetime element)
        day = ("call", ("attr", ("name", "date"), "fromordinal"), (("bin", "Add", ("call", ("attr", x, "toordinal"), (), ()), y),), ())
        day2 = ("bin", "Add", x, ("call", ("name", "timedelta"), (), (("days", y),)))
        got = _none_kept(v, xs, s_.ev.conds)
        if got != day and got != day2:
            problems.append(f"day arithmetic `{show(v, s_.it)[:80]}` is not `s + timedelta(days=n)` / date.fromordinal(s.toordinal() + n) "
                            f"with None kept")
    ctx.ob("e.wrappers", f, "date-add", not problems, "dates + int adds days; anything else uses the generic kernel", f.node,
           message="_Date.__add__: " + "; ".join(problems[:2]))
    # a PLAIN SEQUENCE of day counts must reach the day arithmetic too (the statement's operand forms: vector, scalar, plain
    # sequence): otherwise it falls into the generic kernel, where date + int is a TypeError and the fallback returns operand pairs
    from ..symx import subterms as _st
    seq_ok = False
    for s_, lp, v, pr in res:
        if lp is None or lp.domain is None or lp.domain[0] != "tuple":
            continue
        for d in lp.domain[1]:
            for t in _st(d):
                if t[0] == "ifexp" and t[2][0] == "call" and t[2][1] == ("name", "Vector") and len(t[2][2]) == 1 and t[3] == t[2][2][0] \
                        and is_other(t[3]) and any(x[0] == "call" and x[1] == ("name", "isinstance") and x[2][0] == OTHER
                                                   and any(y == ("name", "Iterable") for y in _st(x[2][1]))
                                                   for x in list(_st(t[1])) + list(_st(d))):
                    seq_ok = True
    # ... and a None entry is a day count too (dates + [1, None, 3] keeps None at that position): the test that admits the sequence,
    # evaluated for an entry that is None, holds
    def pred_for_none(v, y):
        k = v[0]
        if k == "bool":
            vs = [pred_for_none(x, y) for x in v[2]]
            if v[1] == "or":
                return True if any(x is True for x in vs) else (False if all(x is False for x in vs) else None)
            return False if any(x is False for x in vs) else (True if all(x is True for x in vs) else None)
        if k == "un" and v[1] == "Not":
            r = pred_for_none(v[2], y)
            return None if r is None else not r
        if k == "cmp" and v[1] in ("Is", "IsNot") and y in (v[2], v[3]) and ("const", "NoneType", None) in (v[2], v[3]):
            return v[1] == "Is"
        if k == "call" and v[1] == ("name", "isinstance") and len(v[2]) == 2 and v[2][0] == y:
            return False                      # None is an instance of none of int / bool / ...
        return None
    none_ok = None
    for e in it.events:
        if e.kind == "elem" and e.term[0] == "obj" and it.objs[e.term[1]].kind in ("genexp", "listcomp") and e.loops:
            lp_ = it.loops[e.loops[-1]]
            if lp_.iter is not None and is_other(lp_.iter) and any(
                    x == ("call", ("name", "all"), (e.term,), ()) for ev2 in it.events for c_, _p in ev2.conds for x in _st(c_)):
                r = pred_for_none(e.value, ("elem", lp_.iter, lp_.id))
                none_ok = (r is True) if none_ok is None else (none_ok and r is True)
    if seq_ok and none_ok is False:
        seq_ok = False
    ctx.ob("e.wrappers", f, "date-add-sequence", seq_ok, "a plain sequence of day counts is normalised to a vector of them", f.node,
           message="_Date.__add__: a plain sequence of day counts (ANY non-string iterable: list, tuple, range, deque) does not reach the "
                   "day arithmetic - the test is missing, limited to some sequence types, or refuses a None entry: `dates + range(3)` / "
                   "`dates + [1, None, 3]` falls through to the generic kernel and returns (date, int) pairs")
    # ... and a VECTOR of day counts is recognised by its values too, not only by its label: a mask / slice of a mixed column keeps
    # the label <object> (or <float>) although only ints are left in it.  Evaluated (three-valued) for `other` = a 1-D vector, not
    # labelled int, non-empty, every element an int: the generic kernel (pairs) must not be certainly reached
    from ..symx import flatten_conds as _fc

    def resolve(t):
        while t[0] == "ifexp":
            r = tv(t[1])
            if r is None:
                return None
            t = t[2] if r else t[3]
        return t

    def tv(c):
        k = c[0]
        if k == "bool":
            rs = []
            for x in c[2]:
                r = tv(x)
                rs.append(r)
                if (c[1] == "and" and r is False) or (c[1] == "or" and r is True):
                    break
            if c[1] == "and":
                return False if False in rs else (None if None in rs else True)
            return True if True in rs else (None if None in rs else False)
        if k == "un" and c[1] == "Not":
            r = tv(c[2])
            return None if r is None else not r
        if k == "call" and c[1] == ("name", "isinstance") and len(c[2]) == 2 and resolve(c[2][0]) == OTHER:
            names = {y[1] for y in _st(c[2][1]) if y[0] == "name"}
            if names & {"Vector", "Iterable", "Sized", "Collection"}:
                return True
            return False if names <= {"str", "bytes", "bytearray", "complex", "Enum", "Mapping", "int", "float", "bool", "list", "tuple", "range", "Table", "dict"} else None
        if k == "cmp" and len(c) == 4:
            l_, r_ = c[2], c[3]
            sch = lambda t: t[0] == "call" and t[1][0] == "attr" and t[1][2] == "schema" and resolve(t[1][1]) == OTHER
            dt_ = lambda t: t[0] == "attr" and t[2] == "_dtype" and resolve(t[1]) == OTHER
            if c[1] in ("Is", "IsNot") and (sch(l_) or dt_(l_)) and r_ == ("const", "NoneType", None):
                return c[1] == "IsNot"
            if c[1] in ("Eq", "Is", "NotEq", "IsNot") and l_[0] == "attr" and l_[2] == "kind" and (sch(l_[1]) or dt_(l_[1])) and r_[0] == "name":
                return (r_[1] == LABEL[0]) == (c[1] in ("Eq", "Is"))
            # (the label tested against a list of kinds: `other.schema().kind in (object, float)`)
            if c[1] in ("In", "NotIn") and l_[0] == "attr" and l_[2] == "kind" and (sch(l_[1]) or dt_(l_[1])):
                items_ = list(r_[1]) if r_[0] == "tuple" else it.objs[r_[1]].init if r_[0] == "obj" and it.objs[r_[1]].kind in ("list", "set") else None
                if items_ is not None and all(x[0] == "name" for x in items_):
                    return (LABEL[0] in {x[1] for x in items_}) == (c[1] == "In")
            nd = lambda t: t[0] == "call" and t[1][0] == "attr" and t[1][2] == "ndims" and resolve(t[1][1]) == OTHER
            if nd(l_) and r_[0] == "const" and isinstance(r_[2], int):
                return {"Eq": 1 == r_[2], "NotEq": 1 != r_[2], "Lt": 1 < r_[2], "LtE": 1 <= r_[2], "Gt": 1 > r_[2], "GtE": 1 >= r_[2]}.get(c[1])
            ln = lambda t: t[0] == "call" and t[1] == ("name", "len") and len(t[2]) == 1 and resolve(t[2][0]) == OTHER
            if ln(l_) and r_[0] == "const" and isinstance(r_[2], int):      # (a vector of 3)
                return {"Eq": 3 == r_[2], "NotEq": 3 != r_[2], "Lt": 3 < r_[2], "LtE": 3 <= r_[2], "Gt": 3 > r_[2], "GtE": 3 >= r_[2]}.get(c[1])
            return None
        if k == "call" and c[1] == ("name", "len") and len(c[2]) == 1 and resolve(c[2][0]) == OTHER:
            return True
        if k == "call" and c[1] in (("name", "all"), ("name", "any")) and len(c[2]) == 1 and c[2][0][0] == "obj":
            evs = [e for e in it.events if e.kind == "elem" and e.term == c[2][0] and e.loops]
            if len(evs) == 1:
                lp_ = it.loops[evs[0].loops[-1]]
                src = resolve(lp_.iter) if lp_.iter is not None else None
                if src == OTHER or (src is not None and src[0] == "attr" and src[2] == "_underlying" and resolve(src[1]) == OTHER):
                    y = ("elem", lp_.iter, lp_.id)

                    def pe(v):
                        if v[0] == "bool":
                            vs = [pe(x) for x in v[2]]
                            if v[1] == "or":
                                return True if True in vs else (None if None in vs else False)
                            return False if False in vs else (None if None in vs else True)
                        if v[0] == "un" and v[1] == "Not":
                            r = pe(v[2])
                            return None if r is None else not r
                        if v[0] == "cmp" and v[1] in ("Is", "IsNot") and y in (v[2], v[3]) and ("const", "NoneType", None) in (v[2], v[3]):
                            return v[1] == "IsNot"
                        if v[0] == "call" and v[1] == ("name", "isinstance") and len(v[2]) == 2 and v[2][0] == y:
                            names = {z[1] for z in _st(v[2][1]) if z[0] == "name"}
                            return "int" in names
                        return None
                    return pe(evs[0].value)
            return None
        return None
    # ... under every label a mask / slice of a mixed column can carry: <object> (ints and strings), <float> (ints and floats),
    # <complex> (ints and a complex number)
    LABEL = ["object"]
    certainly_pairs, under = [], []
    for lab_ in ("object", "float", "complex"):
        LABEL[0] = lab_
        cp_ = [e for e in fallback if e.conds and all(tv(c) is pol for c, pol in _fc(e.conds))]
        if cp_:
            certainly_pairs += cp_
            under.append(f"<{lab_}>")
    ctx.ob("e.wrappers", f, "date-add-vector-by-values", not certainly_pairs,
           "a vector of day counts labelled <object> / <float> / <complex> (a mask or slice of a mixed column) does not certainly reach the "
           "generic kernel", f.node,
           message=f"_Date.__add__: a vector operand labelled {' / '.join(under)} that holds only ints is not taken for day counts: dates + "
                   "mixed[mixed.isinstance(int)] (a mask or slice of a mixed column keeps the column's label) certainly reaches "
                   "super().__add__, where date + int is a TypeError and the fallback returns (date, int) pairs - while dates + list(days) "
                   "adds the days")
    # a _Date object may hold datetimes (a date vector promoted in place stays a _Date): the midnight widening
    # datetime.combine(x, ...) of an ELEMENT must not be applied to an element that already is a datetime (it would drop its time)
    wprobs = []
    for q2 in ("vector._Date._elementwise_compare", "vector._Date.__add__"):
        dq = prog.func(q2)
        di = interp_of(prog, dq)
        DS = ("param", dq.params[0])
        for e in di.events:
            if e.kind != "call" or e.term[1] != ("attr", ("name", "datetime"), "combine") or not e.term[2]:
                continue
            x = e.term[2][0]
            if not (x[0] == "elem" and (x[1] == DS or x[1] == ("attr", DS, "_underlying"))):
                continue
            guarded = any((not pol) and t[0] == "call" and t[1] == ("name", "isinstance") and t[2][0] == x
                          and any(y == ("name", "datetime") for y in _st(t[2][1])) for t, pol in flatten_conds(e.conds))
            if not guarded:
                wprobs.append(f"{q2}: `{show(e.term, di)[:50]}` is applied to every element, a datetime element included: after "
                              f"v[0] = datetime(2020, 1, 1, 5) on a date vector, v == datetime(2020, 1, 1, 5) is False")
        for e in di.events:
            if e.kind == "call" and e.term[1][0] == "attr" and e.term[1][2] == "toordinal" and e.term[1][1][0] == "elem" \
                    and e.term[1][1][1] in (DS, ("attr", DS, "_underlying")):
                wprobs.append(f"{q2}: day arithmetic through toordinal() drops the time of a datetime element (v + 1 returns dates)")
    # ... and where the date element is widened for a comparison with the ELEMENTS of a <datetime> vector, those elements are
    # widened too: a <datetime> vector may hold plain dates (dates promoted in place), and datetime < date raises TypeError
    dq = prog.func("vector._Date._elementwise_compare")
    di = interp_of(prog, dq)
    for e in di.events:
        if e.kind != "call" or e.term[1] != ("param", "op") or len(e.term[2]) != 2:
            continue
        a0, a1 = e.term[2]
        widened = lambda t: any(y[0] == "call" and y[1] == ("attr", ("name", "datetime"), "combine") for y in _st(t))
        if widened(a0) and a1[0] == "elem" and not widened(a1):
            wprobs.append(f"vector._Date._elementwise_compare:{e.node.lineno}: the date element is widened to midnight but the other vector's "
                          f"element `{show(a1, di)[:40]}` is compared as it is: a <datetime> vector that holds a plain date makes dates < other raise TypeError")
    ctx.ob("e.wrappers", prog.func("vector._Date._elementwise_compare"), "date-widening-guarded", not wprobs,
           "an element is widened to midnight only if it is not a datetime already", prog.func("vector._Date._elementwise_compare").node,
           message="; ".join(sorted(set(wprobs))[:2]))


def _resolve(ctx) -> None:
    prog = ctx.prog
    dyn = set(dir(str)) | set(dir(int)) | set(dir(float)) | set(dir(_dt.date)) | set(dir(_dt.datetime))
    n = 0
    for q, f in sorted(prog.functions.items()):
        if isinstance(f.node, ast.Lambda) or f.cls not in ("Vector", "Table", "Row", "_Int", "_Float", "_String", "_Date", "MethodProxy"):
            continue
        for c in prog.calls_in(f):
            if not isinstance(c.func, ast.Attribute):
                continue
            recv = c.func.value
            is_self = isinstance(recv, ast.Name) and recv.id == "self"
            is_super = isinstance(recv, ast.Call) and isinstance(recv.func, ast.Name) and recv.func.id == "super"
            if not (is_self or is_super):
                continue
            if c.func.attr.startswith("__") and c.func.attr in ("__init__", "__new__", "__getattribute__", "__getattr__", "__setattr__"):
                continue
            n += 1
            kind, target = prog.resolve_call(f, c)
            ok = kind == "method"
            if not ok and is_self and f.cls == "MethodProxy":
                ok = True
            ctx.ob("f.resolve", f, f"call:{c.func.attr}:{n}", ok, f"{short(c.func)} -> {target.qualname if target else '?'}", c,
                   message=f"{q}: `{short(c, 60)}` resolves to no definition in the MRO of {f.cls}"
                           + (" (super() does not consult __getattr__): this call can only raise AttributeError" if is_super else
                              " and is not a method of the element type either" if c.func.attr not in dyn else
                              " - it would go through __getattr__ broadcasting, not a Vector method"))


def _one_cell(ctx) -> None:
    """Sibling agreement of every `one cell or a sequence of cells?` test (serifscan/onecell.py): each exempts text, numbers and enum
    members - since Python 3.11 an enum.Flag member iterates over its bits, so an unexempted test adds / stores the bits pairwise."""
    from ..onecell import REQUIRED, sites
    ss = sites(ctx.prog)
    bad = [s_ for s_ in ss if not s_[3]]
    f = ctx.prog.func("vector.Vector._elementwise_operation")
    ctx.ob("c.pairing", f, "one-cell-exemptions", len(ss) >= 3 and not bad,
           f"{len(ss)} scalar-or-sequence tests, each exempting {sorted(REQUIRED)}", f.node,
           message="; ".join(f"{q} (line {ln}) exempts only {sorted(names)} from its Iterable test: a number or enum member whose class is "
                             f"iterable (enum.IntFlag: Perm.R | Perm.W) is taken for a sequence of its bits there" for q, ln, names, _ok in bad[:3]))


_V, _T = "vector", "table"
MUTANTS = [
    dict(id="flag-operand-iterated-over-its-bits", module=_V, count=2, nth=0, old="		if isinstance(other, Iterable) and not isinstance(other, (str, bytes, bytearray, int, float, complex, Enum, Mapping)):\n			if len(self) != len(other):",
         new="		if isinstance(other, Iterable) and not isinstance(other, (str, bytes, bytearray, Mapping)):\n			if len(self) != len(other):", rules=["c.pairing"], desc="reverts fix 46d03df in the arithmetic kernel"),
    dict(id="table-on-the-right-operands-swapped", module=_V, old="				self._elementwise_operation(col, op_func, op_name, op_symbol) \n				for col in other.cols()",
         new="				col._elementwise_operation(self, op_func, op_name, op_symbol) \n				for col in other.cols()", rules=["a.dispatch"],
         desc="v - T computes T - v (seeded R5-C05-2 in its smallest form)"),
    dict(id="date-add-vector-by-label-only", module=_V,
         old="				or (len(other) > 0 and all(y is None or (isinstance(y, int) and not isinstance(y, bool)) for y in other))):",
         new="				):", rules=["e.wrappers"], desc="reverts fix 6d048d2"),
    dict(id="table-bit-lshift-inherited", module="table", old="	def bit_lshift(self, other):", new="	def _unused_bit_lshift(self, other):",
         rules=["a.dispatch"], desc="reverts fix fba6f9b"),
    dict(id="table-bit-rshift-operator-concatenates", module="table", old="other, Vector.bit_rshift, 'bit_rshift', '>>')",
         new="other, operator.rshift, 'bit_rshift', '>>')", rules=["a.dispatch"], desc="operator.rshift on columns is column stacking, not a shift"),
    dict(id="date-compare-other-not-widened", module=_V, old="bool(op(_at_midnight(x), _at_midnight(y)))", new="bool(op(_at_midnight(x), y))",
         rules=["e.wrappers"], desc="reverts fix b2ea82f"),
    dict(id="mapping-operand-as-sequence", module="vector", count=2, nth=0, old="		if isinstance(other, Iterable) and not isinstance(other, (str, bytes, bytearray, int, float, complex, Enum, Mapping)):\n			if len(self) != len(other):",
         new="		if isinstance(other, Iterable) and not isinstance(other, (str, bytes, bytearray, int, float, complex, Enum)):\n			if len(self) != len(other):", rules=["b.length-before-result"],
         desc="reverts fix c01a1e7"),
    dict(id="date-compare-widens-every-element", module="vector", old="	return x if isinstance(x, datetime) else datetime.combine(x, datetime.min.time())",
         new="	return datetime.combine(x, datetime.min.time())", rules=["e.wrappers"], desc="reverts fix ccb2980 (comparison)"),
    dict(id="date-add-through-toordinal", module="vector",
         old="			return Vector(tuple((s + timedelta(days=other) if s is not None else None) for s in self._underlying))",
         new="			return Vector(tuple((date.fromordinal(s.toordinal() + other) if s is not None else None) for s in self._underlying))",
         rules=["e.wrappers"], desc="reverts fix ccb2980 (v + 1 on datetimes returns dates)"),
    dict(id="date-add-list-tuple-only", module="vector",
         old="		if isinstance(other, Iterable) and not isinstance(other, (Vector, str, bytes, bytearray, int, float, complex, Enum, Mapping)):\n			# a plain sequence of day counts",
         new="		if isinstance(other, (list, tuple)):\n			# a plain sequence of day counts", rules=["e.wrappers"], desc="reverts fix 8277ef1"),
    dict(id="fallback-pairs-none", module="vector", count=2, nth=0,
         old="				result_values = tuple(None if (x is None or y is None) else (x, y) for x, y in zip(self, other, strict=True))",
         new="				result_values = tuple((x, y) for x, y in zip(self, other, strict=True))", rules=["c.pairing"], desc="reverts fix 0468f0f"),
    dict(id="table-rsub-missing", module="table",
         old="	def __rsub__(self, other):\n		return self._table_elementwise_operation(other, _reflected(operator.sub), '__rsub__', '-')\n", new="",
         rules=["a.dispatch"], desc="part of the defect repaired by fix 2417993: 5 - t falls back to Vector.__rsub__ (rows)"),
    dict(id="table-neg-missing", module="table", old="	def __neg__(self):\n		return self._table_unary_operation(operator.neg)\n", new="",
         rules=["a.dispatch"], desc="part of the defect repaired by fix 2417993: -t comes back transposed"),
    dict(id="table-rsub-not-reflected", module="table",
         old="		return self._table_elementwise_operation(other, _reflected(operator.sub), '__rsub__', '-')",
         new="		return self._table_elementwise_operation(other, operator.sub, '__rsub__', '-')", rules=["a.dispatch"]),
    dict(id="date-add-ignores-plain-sequences", module="vector",
         old="			if other and all(y is None or (isinstance(y, int) and not isinstance(y, bool)) for y in other):\n				other = Vector(other)\n",
         new="", rules=["e.wrappers"], desc="the defect repaired by fix 3c6ed23"),
    dict(id="rmul-forwards-to-mul", module="vector", old="		return self._elementwise_operation(other, _reverse_mul, '__rmul__', '*')",
         new="		return self.__mul__(other)", rules=["a.dispatch"], desc="the defect repaired by fix 6ecf214"),
    dict(id="rfloordiv-forward-operator", module=_V, old="		return self._elementwise_operation(other, _reverse_floordiv, '__rfloordiv__', '//')",
         new="		return self._elementwise_operation(other, operator.floordiv, '__rfloordiv__', '//')", rules=["a.dispatch"]),
    dict(id="reverse-mod-swapped", module=_V, old="def _reverse_mod(y, x):\n	return x % y", new="def _reverse_mod(y, x):\n	return y % x", rules=["a.dispatch"]),
    dict(id="kernel-iterable-not-strict", module=_V, count=2, nth=1,
         old="			if len(self) != len(other):\n				raise ValueError(f\"Length mismatch: {len(self)} != {len(other)}\")\n			try:\n				result_values = tuple(None if (x is None or y is None) else op_func(x, y) for x, y in zip(self, other, strict=True))",
         new="			try:\n				result_values = tuple(None if (x is None or y is None) else op_func(x, y) for x, y in zip(self, other))",
         rules=["b.no-truncation", "b.length-before-result"]),
    dict(id="kernel-args-swapped", module=_V, count=2, nth=0,
         old="				result_values = tuple(None if (x is None or y is None) else op_func(x, y) for x, y in zip(self, other, strict=True))",
         new="				result_values = tuple(None if (x is None or y is None) else op_func(y, x) for x, y in zip(self, other, strict=True))",
         rules=["c.pairing"]),
    dict(id="rstrip-calls-lstrip", module=_V,
         old="		return Vector(tuple((s.rstrip(*args, **kwargs) if s is not None else None) for s in self._underlying))",
         new="		return Vector(tuple((s.lstrip(*args, **kwargs) if s is not None else None) for s in self._underlying))", rules=["e.wrappers"]),
    dict(id="proxy-drops-kwargs", module=_V, old="				results.append(getattr(elem, method)(*args, **kwargs))",
         new="				results.append(getattr(elem, method)(*args))", rules=["e.wrappers"]),
    dict(id="proxy-via-class-attribute", module=_V, old="				results.append(getattr(elem, method)(*args, **kwargs))",
         new="				results.append(getattr(type(self._vector._underlying[0]), method)(elem, *args, **kwargs))", rules=["e.wrappers"]),
    dict(id="date-add-super-add", module=_V, old="		return super().__add__(other)", new="		return super().add(other)", rules=["f.resolve", "e.wrappers"]),
    dict(id="radd-self-first", module=_V, old="					vals.append(other + x)", new="					vals.append(x + other)", rules=["c.pairing"]),
    dict(id="empty-typed-early-return", module=_V,
         old="		if isinstance(other, Vector):\n			if len(self) != len(other):\n				raise ValueError(f\"Length mismatch: {len(self)} != {len(other)}\")\n			try:",
         new="		if isinstance(other, Vector):\n			if len(self) == 0 and self._dtype is not None:\n				return Vector((), dtype=self._dtype)\n			if len(self) != len(other):\n				raise ValueError(f\"Length mismatch: {len(self)} != {len(other)}\")\n			try:",
         rules=["b.length-before-result"]),
    dict(id="table-op-skips-last-column", module=_T, old="				op_func(col, other) for col in self.cols()\n", new="				op_func(col, other) for col in self.cols()[:-1]\n",
         rules=["d.table-arithmetic"]),
    dict(id="table-mod-dispatches-floordiv", module=_T, old="		return self._table_elementwise_operation(other, operator.mod, '__mod__', '%')",
         new="		return self._table_elementwise_operation(other, operator.floordiv, '__mod__', '%')", rules=["a.dispatch"]),
    dict(id="rsub-forwards-to-sub", module=_V, old="		return self._elementwise_operation(other, _reverse_sub, '__rsub__', '-')",
         new="		return self.__sub__(other)", rules=["a.dispatch"]),
    dict(id="property-branch-drops-none-guard", module=_V,
         old="				getattr(x, name) if x is not None else None\n				for x in self._underlying",
         new="				getattr(x, name)\n				for x in self._underlying if x is not None", rules=["e.wrappers"]),
    dict(id="twin-reverse-param-names", module=_V, twin=True, old="def _reverse_sub(y, x):\n	return x - y", new="def _reverse_sub(elem, other):\n	return other - elem"),
]

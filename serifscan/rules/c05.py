"""C05 - elementwise operations equal the Python scalar operation, shape preserved.

"Exactly what Python computes" is obtained in the code by DELEGATION: the element operation is
operator.X (or a two-line _reverse_X) applied to the paired elements.  The rules decide that
the delegation is wired correctly for every operator and operand form; they do not re-derive
arithmetic.
"""
from __future__ import annotations

import ast
import builtins
import datetime as _dt
from typing import Dict, List, Optional, Set, Tuple

from ..astutil import Defs
from ..cfg import cfg_of
from ..core import AnalysisError, FuncInfo, attr_chain, cshort, kwarg, short, walk_no_nested, walk_stmts
from ..sites import Resolver, comp_of

ARITH = {
    "__add__": ("operator.add", "+"), "__sub__": ("operator.sub", "-"), "__mul__": ("operator.mul", "*"),
    "__truediv__": ("operator.truediv", "/"), "__floordiv__": ("operator.floordiv", "//"), "__mod__": ("operator.mod", "%"),
    "__pow__": ("operator.pow", "**"),
    "__rsub__": ("_reverse_sub", "-"), "__rtruediv__": ("_reverse_truediv", "/"), "__rfloordiv__": ("_reverse_floordiv", "//"),
    "__rmod__": ("_reverse_mod", "%"), "__rpow__": ("_reverse_pow", "**"),
    "bit_lshift": ("operator.lshift", "<<"), "bit_rshift": ("operator.rshift", ">>"),
}
REVERSE = {"_reverse_sub": ast.Sub, "_reverse_truediv": ast.Div, "_reverse_floordiv": ast.FloorDiv, "_reverse_mod": ast.Mod,
           "_reverse_pow": ast.Pow, "_reverse_add": ast.Add}
UNARY = {"__neg__": "operator.neg", "__pos__": "operator.pos", "__abs__": "operator.abs"}
TABLE_ARITH = {"__add__": "operator.add", "__sub__": "operator.sub", "__mul__": "operator.mul", "__truediv__": "operator.truediv",
               "__floordiv__": "operator.floordiv", "__mod__": "operator.mod", "__pow__": "operator.pow"}
COMMUTATIVE_FORWARD = {"__rmul__": "__mul__"}

ZIP_WHITELIST = {
    ("display._header_rows", "display_names,sanitized_names"): "both lists are built in lock-step by _compute_headers",
    ("table.Table._table_elementwise_operation", "self.cols(),result_cols"): "result_cols is built one per column of self.cols()",
    ("table.Table._validate_key_tuple_hashable", "key_tuple,key_cols"): "the key tuple has one component per key column by construction",
    ("table.Table.sort_by", "resolved,rev_flags"): "rev_flags is length-checked against keys; resolved has one entry per key",
}


def run(ctx) -> None:
    ctx.rule("a.dispatch", "every arithmetic dunder forwards to the kernel with the operator (or _reverse_ helper) of its own "
                           "name; _reverse_X(y, x) returns x X y; a reflected form may call the forward form only for *", 30)
    ctx.rule("b.no-truncation", "every zip() over operands in the operator / comparison / concatenation / mask code is strict=True "
                                "or dominated by a raising length comparison of the same operands (others: explicit table with reason)", 10)
    ctx.rule("b.length-before-result", "in _elementwise_operation / __radd__ nothing is returned for a vector/sequence operand "
                                       "before the lengths have been compared", 2)
    ctx.rule("c.pairing", "kernel elements are op_func(x, y) with x from self and y from other (scalar: op_func(x, other)); "
                          "reflected addition computes <other element> + <self element>", 4)
    ctx.rule("d.table-arithmetic", "table arithmetic maps op_func(col, other) over exactly self.cols(), or pairs self.cols() "
                                   "with other.cols() after a width check", 2)
    ctx.rule("e.wrappers", "each _String/_Date wrapper applies the str/date method of ITS OWN NAME to every element with the "
                           "caller's arguments, None staying None; MethodProxy and the property branch of __getattr__ do the "
                           "same through getattr(element, name)", 60)
    ctx.rule("f.resolve", "every self.m(...) / super().m(...) in the operator code resolves to a definition in the MRO", 40)
    ctx.section("dispatch", _dispatch, ctx)
    ctx.section("zips", _zips, ctx)
    ctx.section("length-first", _length_first, ctx)
    ctx.section("pairing", _pairing, ctx)
    ctx.section("table", _table, ctx)
    ctx.section("wrappers", _wrappers, ctx)
    ctx.section("resolve", _resolve, ctx)
    ctx.not_decided += ["numeric equality of results (delegated to Python's operator)", "dtype of results (C03/C04)",
                        "behaviour when the element operation itself raises"]


# ---------------------------------------------------------------------------------------------
def _single_return(f: FuncInfo) -> Optional[ast.AST]:
    body = [s for s in f.body if not (isinstance(s, ast.Expr) and isinstance(s.value, ast.Constant))]
    if len(body) == 1 and isinstance(body[0], ast.Return):
        return body[0].value
    return None


def _dispatch(ctx) -> None:
    prog = ctx.prog
    for name, (opn, sym) in ARITH.items():
        f = prog.method("Vector", name)
        if f is None:
            raise AnalysisError(f"Vector.{name} vanished")
        r = _single_return(f)
        ok = isinstance(r, ast.Call) and attr_chain(r.func) == ["self", "_elementwise_operation"] and len(r.args) >= 2 \
            and short(r.args[0]) == f.params[1] and short(r.args[1]) == opn
        ctx.ob("a.dispatch", f, "dispatch", ok, f"{name} -> _elementwise_operation(other, {opn})", f.node,
               message=f"Vector.{name} is `{short(r, 80) if r is not None else 'not a single return'}`, expected "
                       f"self._elementwise_operation(other, {opn}, ...)")
    for hname, opcls in REVERSE.items():
        q = f"vector.{hname}"
        if not prog.has_func(q):
            if hname == "_reverse_add":
                continue
            raise AnalysisError(f"{q} vanished")
        f = prog.func(q)
        r = _single_return(f)
        ok = isinstance(r, ast.BinOp) and isinstance(r.op, opcls) and len(f.params) == 2 \
            and short(r.left) == f.params[1] and short(r.right) == f.params[0]
        ctx.ob("a.dispatch", f, "reverse-helper", ok, f"{hname}({', '.join(f.params)}) = {short(r) if r is not None else '?'}", f.node,
               message=f"{hname}({', '.join(f.params)}) returns `{short(r) if r is not None else '?'}`; the kernel calls it as "
                       f"{hname}(<self element>, <other>), so it must return {f.params[1]} {opcls.__name__} {f.params[0]} "
                       f"(other on the LEFT, as written)")
    for name, fwd in COMMUTATIVE_FORWARD.items():
        f = prog.method("Vector", name)
        r = _single_return(f)
        ok = isinstance(r, ast.Call) and attr_chain(r.func) == ["self", fwd] and len(r.args) == 1 and short(r.args[0]) == f.params[1]
        ctx.ob("a.dispatch", f, "commutative-forward", ok, f"{name} -> {fwd}(other)", f.node,
               message=f"Vector.{name} is `{short(r) if r is not None else '?'}`; a reflected form may reuse the forward form only for "
                       f"the commutative operator (expected self.{fwd}(other))")
    # no other reflected dunder forwards to its forward form
    for name in ("__rsub__", "__rtruediv__", "__rfloordiv__", "__rmod__", "__rpow__"):
        f = prog.method("Vector", name)
        r = _single_return(f)
        bad = isinstance(r, ast.Call) and isinstance(r.func, ast.Attribute) and r.func.attr == name.replace("__r", "__")
        if bad:
            ctx.ob("a.dispatch", f, "non-commutative-forward", False, "", f.node,
                   message=f"Vector.{name} forwards to the forward operator: operand order is lost for a non-commutative operator")
    for name, opn in UNARY.items():
        f = prog.method("Vector", name)
        r = _single_return(f)
        ok = isinstance(r, ast.Call) and attr_chain(r.func) == ["self", "_unary_operation"] and r.args and short(r.args[0]) == opn
        ctx.ob("a.dispatch", f, "dispatch", ok, f"{name} -> _unary_operation({opn})", f.node,
               message=f"Vector.{name} is `{short(r) if r is not None else '?'}`, expected self._unary_operation({opn}, ...)")
    for name, opn in TABLE_ARITH.items():
        f = prog.cls("Table").methods.get(name)
        if f is None:
            raise AnalysisError(f"Table.{name} vanished")
        r = _single_return(f)
        ok = isinstance(r, ast.Call) and attr_chain(r.func) == ["self", "_table_elementwise_operation"] and len(r.args) >= 2 \
            and short(r.args[0]) == f.params[1] and short(r.args[1]) == opn
        ctx.ob("a.dispatch", f, "dispatch", ok, f"Table.{name} -> _table_elementwise_operation(other, {opn})", f.node,
               message=f"Table.{name} is `{short(r, 80) if r is not None else '?'}`, expected self._table_elementwise_operation(other, {opn}, ...)")
    # _unary_operation kernel
    f = prog.func("vector.Vector._unary_operation")
    res = Resolver(prog, f)
    rets = [s for s in walk_stmts(f.body) if isinstance(s, ast.Return)]
    ok = False
    if len(rets) == 1 and isinstance(rets[0].value, ast.Call) and short(rets[0].value.func) == "Vector" and rets[0].value.args:
        d = rets[0].value.args[0]
        ds = res.resolve(d) if isinstance(d, ast.Name) else [d]
        c = comp_of(ds[0]) if ds and not isinstance(ds[0], str) else None
        if c is not None and len(c.generators) == 1 and not c.generators[0].ifs and short(c.generators[0].iter) in ("self", "self._underlying"):
            x = c.generators[0].target.id
            ok = short(c.elt) in (f"None if {x} is None else {f.params[1]}({x})",)
    ctx.ob("c.pairing", f, "unary-kernel", ok, "unary kernel: None if x is None else op_func(x) over all elements", f.node,
           message="the unary kernel does not apply op_func to every element of self (None kept)")


# ---------------------------------------------------------------------------------------------
def _len_guarded(prog, f: FuncInfo, call: ast.Call) -> bool:
    """A raising `!=` test that dominates the zip and mentions (a length of) each zipped operand."""
    cfg = cfg_of(f)
    d = Defs(f)
    try:
        node = cfg.enclosing_stmt_node(prog, call)
    except AnalysisError:
        return False

    def roots(e: ast.AST, depth=0) -> Set[str]:
        out = set()
        for n in ast.walk(e):
            if isinstance(n, ast.Name):
                out.add(n.id)
                if depth < 3:
                    for v in d.values(n.id):
                        out |= roots(v, depth + 1)
        return out
    args = [a for a in call.args]
    want = []
    for a in args:
        r = {n.id for n in ast.walk(a) if isinstance(n, ast.Name)}
        want.append(r - {"self"} if r - {"self"} else r)
    for t in cfg.nodes:
        if t.kind != "test" or not cfg.dominates(t, node):
            continue
        tsucc = [s for s, lab in t.succ if lab == "T"]
        if not (tsucc and all(isinstance(s.ast, ast.Raise) for s in tsucc)):
            continue
        e = t.ast
        if isinstance(e, ast.Compare) and len(e.ops) == 1 and isinstance(e.ops[0], ast.NotEq) and "len(" in short(e):
            mentioned = roots(e)
            if all(w & mentioned for w in want):
                return True
    return False


OPERAND_ZIP_FUNCS = {
    "vector.Vector._elementwise_operation", "vector.Vector._elementwise_compare", "vector._Date._elementwise_compare",
    "table.Table._elementwise_compare", "vector.Vector.__radd__", "vector._Date.__add__", "vector.Vector.__matmul__",
    "vector.Vector.__rmatmul__", "table.Table.__lshift__", "table.Table._table_elementwise_operation",
    "vector.Vector.__getitem__",
}


def _one_per_column(f: FuncInfo, c: ast.Call) -> bool:
    """zip(SEQ, local) where the local is tuple/list(<expr> for v in SEQ): same length by construction."""
    if len(c.args) != 2 or not isinstance(c.args[1], ast.Name):
        return False
    from ..core import Program
    return False


def _one_per_column_at(prog, f: FuncInfo, c: ast.Call) -> bool:
    if len(c.args) != 2 or not isinstance(c.args[1], ast.Name):
        return False
    res = Resolver(prog, f)
    defs = res.resolve(c.args[1], c)
    if not defs:
        return False
    for v in defs:
        if isinstance(v, str):
            return False
        cm = comp_of(v)
        if not (cm is not None and len(cm.generators) == 1 and not cm.generators[0].ifs
                and short(cm.generators[0].iter) == short(c.args[0])):
            return False
    return True


def _zips(ctx) -> None:
    prog = ctx.prog
    other = 0
    for q, f in sorted(prog.functions.items()):
        if isinstance(f.node, ast.Lambda):
            continue
        if q not in OPERAND_ZIP_FUNCS:
            other += sum(1 for st in f.body for n in walk_no_nested(st)
                         if isinstance(n, ast.Call) and isinstance(n.func, ast.Name) and n.func.id == "zip")
            continue
        own = [n for st in f.body for n in walk_no_nested(st) if isinstance(n, ast.Call)]
        k = 0
        for c in own:
            if not (isinstance(c.func, ast.Name) and c.func.id == "zip" and len(c.args) >= 2):
                continue
            k += 1
            args = ",".join(short(a, 30) for a in c.args)
            strict = kwarg(c, "strict")
            ok, why = False, ""
            if strict is not None and short(strict) == "True":
                ok, why = True, "strict=True"
            elif _len_guarded(prog, f, c):
                ok, why = True, "dominated by a raising length comparison"
            elif (q, args) in ZIP_WHITELIST:
                ok, why = True, "table: " + ZIP_WHITELIST[(q, args)]
            elif _one_per_column_at(prog, f, c):
                ok, why = True, "second operand is built one per column of the first"
            ctx.ob("b.no-truncation", f, f"zip:{k}:{args}", ok, f"zip({args}): {why}", c,
                   message=f"{q}: zip({args}) silently truncates to the shorter operand: it is neither strict=True nor preceded by a "
                           f"raising length comparison of these operands")


def _kernel_sites(prog, q):
    """(site, comprehension parts) for every vector result built in function q (closures / later helpers in line)."""
    from ..sites2 import all_sites2, comp_parts, leaves
    f = prog.func(q)
    out = []
    for s in all_sites2(prog):
        if s.top is not f or s.kind not in ("Vector", "cls"):
            continue
        for d in leaves(s.data):
            out.append((s, d, comp_parts(s.it, d)))
    return f, out


def _length_first(ctx) -> None:
    """Every result whose elements pair self with a vector / sequence operand is produced only where the lengths were compared
    (a raising `len(self) != len(other)` on the way) - decided on the symx event log."""
    from ..symx import flatten_conds, show
    ctx.extra.setdefault("note", "zip() calls outside the operator code (assignment, renames, display, joins) belong to C08/C09/C20")
    prog = ctx.prog
    from ..sites2 import interp_of
    from ..symx import subterms
    for q in ("vector.Vector._elementwise_operation", "vector.Vector.__radd__"):
        f = prog.func(q)
        it = interp_of(prog, f)
        SELF = ("param", f.params[0])
        others = (("param", f.params[1]), ("call", ("attr", SELF, "_check_duplicate"), (("param", f.params[1]),), ()))
        problems = []
        for e in it.events:
            if e.kind != "return" or e.depth != 0:
                continue
            fc = flatten_conds(e.conds)
            if any(pol and any(x[0] == "call" and x[1][0] == "attr" and x[1][2] == "ndims" for x in subterms(t)) for t, pol in fc):
                continue                                         # table cases A / B

            def isinst(t, cls):
                return t[0] == "call" and t[1] == ("name", "isinstance") and len(t[2]) == 2 and t[2][0] in others and t[2][1] == ("name", cls)
            def seq_form(t) -> bool:
                """does t (taken true) say: the operand is a vector or a non-string iterable?"""
                if isinst(t, "Vector") or isinst(t, "Iterable"):
                    return True
                if t[0] == "bool" and t[1] == "and":
                    return any(seq_form(x) for x in t[2])
                if t[0] == "bool" and t[1] == "or":
                    return all(seq_form(x) for x in t[2])
                return False

            def scalar_form(t, pol) -> bool:
                """does (t, pol) say: the operand is not an iterable (or is a string: one cell)?"""
                if not pol:
                    return any(isinst(x, "Iterable") for x in subterms(t)) and not isinst(t, "Vector")
                return t[0] == "bool" and t[1] == "or" and any(x[0] == "un" and x[1] == "Not" and isinst(x[2], "Iterable") for x in t[2])
            in_seq = any(pol and seq_form(t) for t, pol in fc)
            scalar = any((not pol) and isinst(t, "Vector") for t, pol in fc) and any(scalar_form(t, pol) for t, pol in fc)
            if in_seq:
                ln_s = ("call", ("name", "len"), (SELF,), ())
                checked = any(pol and t[0] == "cmp" and t[1] == "Eq" and ln_s in (t[2], t[3])
                              and any(("call", ("name", "len"), (o,), ()) in (t[2], t[3]) for o in others) for t, pol in fc)
                if not checked:
                    problems.append(f"`return {show(e.term, it)[:60]}` (line {getattr(e.node, 'lineno', '?')}) returns a result for a "
                                    f"vector/sequence operand before `len(self) != len({f.params[1]})` has been checked: different lengths "
                                    f"would not raise")
            elif not scalar:
                problems.append(f"`return {show(e.term, it)[:60]}` (line {getattr(e.node, 'lineno', '?')}) returns before the operand form is "
                                f"known and the lengths compared")
        seen = set()
        problems = [p_ for p_ in problems if not (p_ in seen or seen.add(p_))]
        ctx.ob("b.length-before-result", f, "returns", not problems, "every result for a sequence operand follows the length comparison",
               f.node, message="; ".join(problems[:2]))


# ---------------------------------------------------------------------------------------------
def _pairing(ctx) -> None:
    from ..symx import NONE as SNONE
    from ..symx import flatten_conds, show
    prog = ctx.prog
    f, sites = _kernel_sites(prog, "vector.Vector._elementwise_operation")
    SELF = ("param", f.params[0])
    others = (("param", f.params[1]), ("call", ("attr", SELF, "_check_duplicate"), (("param", f.params[1]),), ()))
    opf = ("param", f.params[2])
    seen_comps = {}
    for s, d, cp in sites:
        if cp is None or len(cp[0]) != 1:
            continue
        it = s.it
        (L,), extra, v, ev = cp
        if v[0] == "tuple":
            continue                                        # the (x, y) fallback of incompatible types
        key = (id(it), d)
        if key in seen_comps:
            continue
        lp = it.loops[L]
        problems = []
        if lp.domain is not None and lp.domain[0] == "tuple":
            doms = lp.domain[1]
            if not (len(doms) == 2 and doms[0] == SELF and doms[1] in others):
                problems.append(f"operands paired by `{show(lp.iter, it)[:50]}`, expected zip(self, {f.params[1]}, strict=True)")
                x = y = None
            else:
                x, y = ("elem", doms[0], L), ("elem", doms[1], L)
                want = ("ifexp", ("bool", "or", (("cmp", "Is", x, SNONE), ("cmp", "Is", y, SNONE))), SNONE, ("call", opf, (x, y), ()))
                wtxt = "None if x is None or y is None else op_func(x, y)"
        elif lp.iter in (SELF, ("attr", SELF, "_underlying")):
            x = ("elem", lp.iter, L)
            want = None
            wtxt = f"None if x is None else op_func(x, {f.params[1]})"
            if not (v[0] == "ifexp" and v[1] == ("cmp", "Is", x, SNONE) and v[2] == SNONE and v[3][0] == "call" and v[3][1] == opf
                    and len(v[3][2]) == 2 and v[3][2][0] == x and v[3][2][1] in others):
                problems.append(f"element is `{show(v, it)[:80]}`, expected `{wtxt}`")
        else:
            if not any(t == opf for t in __import__("serifscan.symx", fromlist=["subterms"]).subterms(v)):
                continue                                    # not a kernel computation
            problems.append(f"kernel iterates `{show(lp.iter, it)[:50]}`, not self (paired with the other operand)")
            want = None
            wtxt = "?"
        if extra:
            problems.append("elements are filtered: the result would be shorter than the operands")
        if want is not None and v != want:
            problems.append(f"element is `{show(v, it)[:80]}`, expected `{wtxt}`")
        seen_comps[key] = True
        ctx.ob("c.pairing", f, f"kernel:{len(seen_comps)}", not problems, wtxt, ev.node, message="; ".join(problems))
    if len(seen_comps) < 2:
        raise AnalysisError(f"_elementwise_operation: expected a paired and a scalar kernel, found {len(seen_comps)}")
    # __radd__
    f, sites = _kernel_sites(prog, "vector.Vector.__radd__")
    SELF = ("param", f.params[0])
    others = (("param", f.params[1]), ("call", ("attr", SELF, "_check_duplicate"), (("param", f.params[1]),), ()))
    from ..sites2 import interp_of
    it0 = interp_of(prog, f)
    rets = [e for e in it0.events if e.kind == "return" and e.depth == 0]
    if not sites:
        # delegation form: must go through the kernel with a verified _reverse_add
        ok = bool(rets) and prog.has_func("vector._reverse_add") and all(
            r.term[0] == "call" and r.term[1] == ("attr", SELF, "_elementwise_operation") and len(r.term[2]) == 2
            and r.term[2][0] in others and r.term[2][1] == ("name", "_reverse_add") for r in rets)
        ctx.ob("c.pairing", f, "radd", ok, "__radd__ delegates every operand form to the kernel with _reverse_add", f.node,
               message="__radd__ does not compute <other element> + <self element> for every operand form: "
                       + "; ".join(f"`{show(r.term, it0)[:60]}`" for r in rets))
        return
    k = 0
    seen_comps = {}
    for s, d, cp in sites:
        it = s.it
        key = (id(it), d)
        if key in seen_comps:
            continue
        seen_comps[key] = True
        k += 1
        problems = []
        if cp is None or len(cp[0]) != 1:
            problems.append(f"result data `{s.sh(d, 50)}` is not one value per element")
            ctx.ob("c.pairing", f, f"radd:{k}", False, "", s.node, message="; ".join(problems))
            continue
        (L,), extra, v, ev = cp
        lp = it.loops[L]
        if lp.domain is not None and lp.domain[0] == "tuple":
            doms = lp.domain[1]
            if not (len(doms) == 2 and doms[0] in others and doms[1] == SELF):
                problems.append(f"operands paired by `{show(lp.iter, it)[:50]}`, expected zip({f.params[1]}, self, strict=True)")
                want = None
            else:
                x, y = ("elem", doms[0], L), ("elem", doms[1], L)
                want = ("ifexp", ("bool", "or", (("cmp", "Is", x, SNONE), ("cmp", "Is", y, SNONE))), SNONE, ("bin", "Add", x, y))
        else:
            if lp.iter not in (SELF, ("attr", SELF, "_underlying")):
                problems.append(f"scalar branch iterates `{show(lp.iter, it)[:40]}`")
            x = ("elem", lp.iter, L)
            want = None
            if not (v[0] == "ifexp" and v[1] == ("cmp", "Is", x, SNONE) and v[2] == SNONE and v[3][0] == "bin" and v[3][1] == "Add"
                    and v[3][2] in others and v[3][3] == x):
                problems.append(f"the element operation is `{show(v, it)[:70]}`, expected `None if x is None else {f.params[1]} + x` "
                                f"(other operand on the LEFT)")
        if extra:
            problems.append("elements are filtered")
        if want is not None and v != want:
            problems.append(f"the element operation is `{show(v, it)[:70]}`, expected `None if either is None else <other element> + <self "
                            f"element>` (other operand on the LEFT)")
        ctx.ob("c.pairing", f, f"radd:{k}", not problems, "<other element> + <self element>, None kept", ev.node, message="; ".join(problems))
    if k < 2:
        raise AnalysisError(f"__radd__: expected a paired and a scalar element computation, found {k}")


def _table(ctx) -> None:
    prog = ctx.prog
    f = prog.func("table.Table._table_elementwise_operation")
    other, opf = f.params[1], f.params[2]
    problems = []
    scal = [s for s in walk_stmts(f.body) if isinstance(s, ast.Assign) and isinstance(s.value, ast.Call) and short(s.value.func) == "tuple"]
    if not (scal and cshort(scal[0].value.args[0]) == f"({opf}(_0, {other}) for _0 in self.cols())"):
        problems.append(f"scalar case is `{short(scal[0].value, 70) if scal else '?'}`, expected {opf}(col, {other}) for col in self.cols()")
    ctx.ob("d.table-arithmetic", f, "scalar", not problems, "table ⊙ scalar maps the vector operation over all columns", f.node,
           message="; ".join(problems))
    problems = []
    loops = [s for s in walk_stmts(f.body) if isinstance(s, ast.For) and "zip(self.cols(), " + other + ".cols())" in short(s.iter)]
    if len(loops) != 1:
        problems.append("table ⊙ table does not pair self.cols() with other.cols()")
    else:
        lp = loops[0]
        names = [n.id for n in ast.walk(lp.target) if isinstance(n, ast.Name)]
        calls = [n for n in walk_no_nested(lp) if isinstance(n, ast.Call) and short(n.func) == opf]
        if not (calls and len(names) >= 3 and [short(a) for a in calls[0].args] == names[-2:]):
            problems.append(f"the per-column operation is `{short(calls[0]) if calls else '?'}`, expected {opf}(left_col, right_col)")
        if not _len_guarded(prog, f, [n for n in ast.walk(lp.iter) if isinstance(n, ast.Call) and short(n.func) == "zip"][0]):
            problems.append("no width check `len(self.cols()) != len(other.cols())` precedes the pairing")
    ctx.ob("d.table-arithmetic", f, "table", not problems, "table ⊙ table pairs columns after a width check", f.node, message="; ".join(problems))


# ---------------------------------------------------------------------------------------------
def _wrappers(ctx) -> None:
    prog = ctx.prog
    helpers = {"before": ("partition", 0), "after": ("partition", 2), "before_last": ("rpartition", 0), "after_last": ("rpartition", 2)}
    for cname, pytype in (("_String", str), ("_Date", _dt.date)):
        c = prog.cls(cname)
        for name, f in sorted(c.methods.items()):
            if name.startswith("_") or name in ("eomonth",):
                continue
            r = _single_return(f)
            problems = []
            if not hasattr(pytype, name) and name not in helpers:
                problems.append(f"{pytype.__name__} has no method {name}")
            if not (isinstance(r, ast.Call) and short(r.func) == "Vector" and len(r.args) == 1 and not r.keywords):
                problems.append(f"body is `{short(r, 70) if r is not None else 'not a single return'}`")
            else:
                cm = comp_of(r.args[0])
                if cm is None or len(cm.generators) != 1 or cm.generators[0].ifs or short(cm.generators[0].iter) != "self._underlying":
                    problems.append("not an unfiltered comprehension over self._underlying")
                else:
                    s = cm.generators[0].target.id
                    e = cm.elt
                    if not (isinstance(e, ast.IfExp) and short(e.test) == f"{s} is not None" and short(e.orelse) == "None"):
                        problems.append(f"element `{short(e, 60)}` does not keep None as None")
                    else:
                        call = e.body
                        if name in helpers:
                            m, idx = helpers[name]
                            want = f"{s}.{m}({f.params[1]})[{idx}]"
                            if short(call) != want:
                                problems.append(f"element is `{short(call)}`, expected `{want}`")
                        else:
                            has_var = f.node.args.vararg is not None and f.node.args.kwarg is not None
                            want = f"{s}.{name}(*{f.node.args.vararg.arg}, **{f.node.args.kwarg.arg})" if has_var else f"{s}.{name}()"
                            if short(call) != want:
                                problems.append(f"element is `{short(call)}`, expected `{want}` (the method of the wrapper's own name, "
                                                f"with the caller's arguments)")
            ctx.ob("e.wrappers", f, "wrapper", not problems, f"{cname}.{name}: element-wise {pytype.__name__}.{name}, None kept", f.node,
                   message=f"{cname}.{name}: " + "; ".join(problems))
    # MethodProxy.__call__
    f = prog.func("vector.MethodProxy.__call__")
    problems = []
    loops = [s for s in walk_stmts(f.body) if isinstance(s, ast.For)]
    va, kw = f.node.args.vararg, f.node.args.kwarg
    if len(loops) != 1 or short(loops[0].iter) != "self._vector._underlying" or va is None or kw is None:
        problems.append("does not iterate all elements of the proxied vector with *args, **kwargs")
    else:
        lp = loops[0]
        x = lp.target.id
        d = Defs(f)
        apps = [n for n in walk_no_nested(lp) if isinstance(n, ast.Call) and isinstance(n.func, ast.Attribute) and n.func.attr == "append"]
        texts = sorted(short(a.args[0]) for a in apps)
        mvars = [n for n, lst in d.assigns.items() if any(v is not None and short(v) == "self._method_name" for v, _, _ in lst)]
        mv = mvars[0] if mvars else "self._method_name"
        want_call = f"getattr({x}, {mv})(*{va.arg}, **{kw.arg})"
        if texts != sorted(["None", want_call]):
            problems.append(f"appends {texts}; expected None for a None element and `{want_call}` (the method looked up ON THE ELEMENT, "
                            f"by the proxied name) otherwise")
        none_if = [s for s in lp.body if isinstance(s, ast.If) and short(s.test) == f"{x} is None"]
        if not none_if:
            problems.append("no `elem is None` test")
    ctx.ob("e.wrappers", f, "method-proxy", not problems, "MethodProxy applies getattr(elem, name)(*args, **kwargs), None kept", f.node,
           message="MethodProxy.__call__: " + "; ".join(problems))
    f = prog.func("vector.MethodProxy.__init__")
    ok = any(short(s) == "self._method_name = method_name" for s in f.body) and any(short(s) == "self._vector = vector" for s in f.body)
    ctx.ob("e.wrappers", f, "method-proxy-init", ok, "proxy stores the vector and the method NAME", f.node,
           message="MethodProxy no longer stores the vector and the method name")
    # Vector.__getattr__
    f = prog.func("vector.Vector.__getattr__")
    nm = f.params[1]
    rets = [s for s in walk_stmts(f.body) if isinstance(s, ast.Return)]
    texts = [cshort(r.value) for r in rets]
    want_proxy = f"MethodProxy(self, {nm})"
    want_prop = f"Vector(tuple((getattr(_0, {nm}) if _0 is not None else None for _0 in self._underlying)))"
    ok = want_proxy in texts and want_prop in texts and len(texts) == 2
    ctx.ob("e.wrappers", f, "getattr", ok, "callable class attribute -> MethodProxy(self, name); property -> per-element getattr", f.node,
           message=f"Vector.__getattr__ returns {texts}; expected `{want_proxy}` for methods and `{want_prop}` for properties")
    # _Date.__add__
    f = prog.func("vector._Date.__add__")
    rets = [s for s in walk_stmts(f.body) if isinstance(s, ast.Return)]
    problems = []
    if not rets or short(rets[-1].value) != f"super().__add__({f.params[1]})":
        problems.append(f"falls back to `{short(rets[-1].value) if rets else '?'}`, expected super().__add__(other)")
    days = [cshort(r.value) for r in rets[:-1]]
    for t in days:
        if "date.fromordinal(_0.toordinal() + " not in t or "is not None" not in t:
            problems.append(f"day arithmetic `{t[:70]}` is not date.fromordinal(s.toordinal() + n) with None kept")
    ctx.ob("e.wrappers", f, "date-add", not problems, "dates + int adds days; anything else uses the generic kernel", f.node,
           message="_Date.__add__: " + "; ".join(problems))


def _resolve(ctx) -> None:
    prog = ctx.prog
    dyn = set(dir(str)) | set(dir(int)) | set(dir(float)) | set(dir(_dt.date)) | set(dir(_dt.datetime))
    n = 0
    for q, f in sorted(prog.functions.items()):
        if isinstance(f.node, ast.Lambda) or f.cls not in ("Vector", "Table", "Row", "_Int", "_Float", "_String", "_Date", "MethodProxy"):
            continue
        for c in prog.calls_in(f):
            if not isinstance(c.func, ast.Attribute):
                continue
            recv = c.func.value
            is_self = isinstance(recv, ast.Name) and recv.id == "self"
            is_super = isinstance(recv, ast.Call) and isinstance(recv.func, ast.Name) and recv.func.id == "super"
            if not (is_self or is_super):
                continue
            if c.func.attr.startswith("__") and c.func.attr in ("__init__", "__new__", "__getattribute__", "__getattr__", "__setattr__"):
                continue
            n += 1
            kind, target = prog.resolve_call(f, c)
            ok = kind == "method"
            if not ok and is_self and f.cls == "MethodProxy":
                ok = True
            ctx.ob("f.resolve", f, f"call:{c.func.attr}:{n}", ok, f"{short(c.func)} -> {target.qualname if target else '?'}", c,
                   message=f"{q}: `{short(c, 60)}` resolves to no definition in the MRO of {f.cls}"
                           + (" (super() does not consult __getattr__): this call can only raise AttributeError" if is_super else
                              " and is not a method of the element type either" if c.func.attr not in dyn else
                              " - it would go through __getattr__ broadcasting, not a Vector method"))


_V, _T = "vector", "table"
MUTANTS = [
    dict(id="rfloordiv-forward-operator", module=_V, old="		return self._elementwise_operation(other, _reverse_floordiv, '__rfloordiv__', '//')",
         new="		return self._elementwise_operation(other, operator.floordiv, '__rfloordiv__', '//')", rules=["a.dispatch"]),
    dict(id="reverse-mod-swapped", module=_V, old="def _reverse_mod(y, x):\n	return x % y", new="def _reverse_mod(y, x):\n	return y % x", rules=["a.dispatch"]),
    dict(id="kernel-iterable-not-strict", module=_V, count=2, nth=1,
         old="			if len(self) != len(other):\n				raise ValueError(f\"Length mismatch: {len(self)} != {len(other)}\")\n			try:\n				result_values = tuple(None if (x is None or y is None) else op_func(x, y) for x, y in zip(self, other, strict=True))",
         new="			try:\n				result_values = tuple(None if (x is None or y is None) else op_func(x, y) for x, y in zip(self, other))",
         rules=["b.no-truncation", "b.length-before-result"]),
    dict(id="kernel-args-swapped", module=_V, count=2, nth=0,
         old="				result_values = tuple(None if (x is None or y is None) else op_func(x, y) for x, y in zip(self, other, strict=True))",
         new="				result_values = tuple(None if (x is None or y is None) else op_func(y, x) for x, y in zip(self, other, strict=True))",
         rules=["c.pairing"]),
    dict(id="rstrip-calls-lstrip", module=_V,
         old="		return Vector(tuple((s.rstrip(*args, **kwargs) if s is not None else None) for s in self._underlying))",
         new="		return Vector(tuple((s.lstrip(*args, **kwargs) if s is not None else None) for s in self._underlying))", rules=["e.wrappers"]),
    dict(id="proxy-drops-kwargs", module=_V, old="				results.append(getattr(elem, method)(*args, **kwargs))",
         new="				results.append(getattr(elem, method)(*args))", rules=["e.wrappers"]),
    dict(id="proxy-via-class-attribute", module=_V, old="				results.append(getattr(elem, method)(*args, **kwargs))",
         new="				results.append(getattr(type(self._vector._underlying[0]), method)(elem, *args, **kwargs))", rules=["e.wrappers"]),
    dict(id="date-add-super-add", module=_V, old="		return super().__add__(other)", new="		return super().add(other)", rules=["f.resolve", "e.wrappers"]),
    dict(id="radd-self-first", module=_V, old="					vals.append(other + x)", new="					vals.append(x + other)", rules=["c.pairing"]),
    dict(id="empty-typed-early-return", module=_V,
         old="		if isinstance(other, Vector):\n			if len(self) != len(other):\n				raise ValueError(f\"Length mismatch: {len(self)} != {len(other)}\")\n			try:",
         new="		if isinstance(other, Vector):\n			if len(self) == 0 and self._dtype is not None:\n				return Vector((), dtype=self._dtype)\n			if len(self) != len(other):\n				raise ValueError(f\"Length mismatch: {len(self)} != {len(other)}\")\n			try:",
         rules=["b.length-before-result"]),
    dict(id="table-op-skips-last-column", module=_T, old="				op_func(col, other) for col in self.cols()\n", new="				op_func(col, other) for col in self.cols()[:-1]\n",
         rules=["d.table-arithmetic"]),
    dict(id="table-mod-dispatches-floordiv", module=_T, old="		return self._table_elementwise_operation(other, operator.mod, '__mod__', '%')",
         new="		return self._table_elementwise_operation(other, operator.floordiv, '__mod__', '%')", rules=["a.dispatch"]),
    dict(id="rsub-forwards-to-sub", module=_V, old="		return self._elementwise_operation(other, _reverse_sub, '__rsub__', '-')",
         new="		return self.__sub__(other)", rules=["a.dispatch"]),
    dict(id="property-branch-drops-none-guard", module=_V,
         old="				getattr(x, name) if x is not None else None\n				for x in self._underlying",
         new="				getattr(x, name)\n				for x in self._underlying if x is not None", rules=["e.wrappers"]),
    dict(id="twin-reverse-param-names", module=_V, twin=True, old="def _reverse_sub(y, x):\n	return x - y", new="def _reverse_sub(elem, other):\n	return other - elem"),
]

"""C17 - every column is reachable by exactly one advertised, valid accessor name."""
from __future__ import annotations

import ast
import re
from typing import Dict, List, Optional, Set, Tuple

from ..astutil import Defs
from ..cfg import feasible_path, cfg_of
from ..core import AnalysisError, FuncInfo, attr_chain, cshort, short, walk_no_nested, walk_stmts
from ..effects import effects_of
from . import nameres

try:                                   # regex syntax trees of the standard library (3.11+: re._parser)
    import re._parser as sre_parse
    import re._constants as sre_c
except Exception:                      # pragma: no cover
    import sre_parse
    import sre_constants as sre_c


def run(ctx) -> None:
    ctx.rule("a.sanitiser", "_sanitize_user_name applies, in this order: str() coercion, lower(), re.sub(<class>+, '_'), strip('_'), "
                            "empty -> None, leading digit -> 'c' prefix, indexed-accessor look-alike -> '_' suffix, reserved -> '_' "
                            "suffix; the kept alphabet is a subset of [a-z0-9_] and runs collapse to one underscore", 3)
    ctx.rule("b.reserved-closed", "no public Vector/Table method name equals another reserved name + '_' and none looks like a "
                                  "generated accessor (colN_, x__N): `name + '_'` can never shadow a method", 1)
    ctx.rule("d.kernels-agree", "Table._build_column_map and display._compute_headers name every column by the same kernel: "
                                "colN_ for unnamed / empty, base for the first occurrence, base[_]_N for repeats, repeats detected over "
                                "ALL columns with N the column's own position", 2)
    ctx.rule("e.lookup-reached", "in Table.__getattr__ / __setattr__ / __setitem__(str) every path that did not return an indexed or "
                                 "colN_ accessor passes through the accessor-map lookup before giving up", 3)
    ctx.rule("f.map-fresh", "the accessor map is read only through _current_column_map() (which rebuilds it when a column was renamed "
                            "through a live view); _build_column_map() results are always stored; every store to a column name inside a "
                            "Table method is followed by a rebuild", 4)
    ctx.rule("g.names-untouched", "sanitisation, map building, dir() and repr never write a stored name", 3)
    ctx.rule("h.string-index", "string indexing: exact stored name first over all columns, first occurrence; missing raises (R-NAME)", 2)
    ctx.section("sanitiser", _sanitiser, ctx)
    ctx.section("reserved", _reserved, ctx)
    ctx.section("kernels", _kernels, ctx)
    ctx.section("lookup", _lookup, ctx)
    ctx.section("fresh", _fresh, ctx)
    ctx.section("untouched", _untouched, ctx)
    ctx.section("names", nameres.check, ctx, "h.string-index")
    ctx.info("Table.peek's `attr` column shows the plain sanitised name without repeat disambiguation; peek is not one of the advertised "
             "accessor sources of the statement (dir(), the dot row of repr)")
    ctx.info("Table.__getitem__(str) falls back to sanitised forms with `base__idx` (always two underscores) where the accessor map uses "
             "base[_]_idx; the statement only promises string indexing by STORED name")
    ctx.not_decided.append("what repr prints as the dot row beyond the kernel agreement; uniqueness argument (c) is by construction from a/d")


# --------------------------------------------------------------------------------------------- a
STEPS = ["coerce", "lower", "sub", "strip", "empty", "digit", "lookalike", "reserved", "return"]


def _step_of(st: ast.stmt, var_in: str) -> Optional[str]:
    t = short(st, 300)
    if isinstance(st, ast.If) and t.startswith("if not isinstance(") and "str(" in t:
        return "coerce"
    if isinstance(st, ast.Assign) and short(st.value).endswith(".lower()"):
        return "lower"
    if isinstance(st, ast.Assign) and isinstance(st.value, ast.Call) and short(st.value.func) == "re.sub":
        return "sub"
    if isinstance(st, ast.Assign) and short(st.value).endswith(".strip('_')"):
        return "strip"
    if isinstance(st, ast.If) and ("== ''" in short(st.test) or short(st.test).startswith("not ")) and isinstance(st.body[0], ast.Return) \
            and short(st.body[0].value) == "None":
        return "empty"
    if isinstance(st, ast.If) and ".isdigit()" in short(st.test):
        return "digit"
    if isinstance(st, ast.If) and "re.match(" in short(st.test):
        return "lookalike"
    if isinstance(st, ast.If) and "_get_reserved_names()" in short(st.test):
        return "reserved"
    if isinstance(st, ast.Return):
        return "return"
    return None


def _kept_alphabet(pattern: str) -> Tuple[Optional[Set[str]], str]:
    """For a pattern `[^...]+`: the set of characters NOT replaced, and the quantifier description."""
    p = sre_parse.parse(pattern)
    items = list(p)
    if len(items) != 1:
        return None, "pattern is not a single repeated class"
    op, av = items[0]
    if op not in (sre_c.MAX_REPEAT, sre_c.MIN_REPEAT):
        return None, "class is not repeated: every invalid character would give its own underscore"
    lo, hi, sub = av
    quant = f"{{{lo},{'inf' if hi == sre_c.MAXREPEAT else hi}}}"
    sub = list(sub)
    if len(sub) != 1 or sub[0][0] != sre_c.IN:
        return None, "not a character class"
    cls = sub[0][1]
    if not cls or cls[0][0] != sre_c.NEGATE:
        return None, "class is not negated"
    kept = set()
    for op2, av2 in cls[1:]:
        if op2 == sre_c.LITERAL:
            kept.add(chr(av2))
        elif op2 == sre_c.RANGE:
            kept |= {chr(c) for c in range(av2[0], av2[1] + 1)}
        else:
            return None, f"class item {op2} not supported"
    if lo != 1 or hi != sre_c.MAXREPEAT:
        return kept, f"quantifier {quant} is not + (runs must collapse to ONE underscore)"
    return kept, ""


def _regex_call(prog, module: str, t, method: str):
    """(pattern, other args) if t is re.<method>(P, ...) or <module-level compiled regex>.<method>(...)."""
    from ..core import module_binding
    if t[0] != "call" or t[1][0] != "attr" or t[1][2] != method or t[3]:
        return None
    recv = t[1][1]
    if recv == ("name", "re") and t[2] and t[2][0][0] == "const" and isinstance(t[2][0][2], str):
        return t[2][0][2], t[2][1:]
    if recv[0] == "name":
        b = module_binding(prog, module, recv[1])
        if b is not None and b[0] == "constant" and isinstance(b[1], ast.Call) and short(b[1].func) == "re.compile" and b[1].args \
                and isinstance(b[1].args[0], ast.Constant) and len(b[1].args) == 1 and not b[1].keywords:
            return b[1].args[0].value, t[2]
    if recv[0] == "call" and recv[1] == ("attr", ("name", "re"), "compile") and len(recv[2]) == 1 and recv[2][0][0] == "const":
        return recv[2][0][2], t[2]
    return None


def _sanitiser(ctx) -> None:
    from ..symx import Interp as SInterp
    from ..symx import NONE as SNONE
    from ..symx import const, show
    prog = ctx.prog
    f = prog.func("naming._sanitize_user_name")
    it = SInterp(prog, f)
    nm = ("param", f.params[0])
    sh = lambda t: show(t, it)[:70]
    order: List[str] = []       # what went wrong in the order of the stages
    details: List[str] = []
    rets = it.returns
    none_rets = [(c, t) for c, t in rets if t == SNONE]
    val_rets = [(c, t) for c, t in rets if t != SNONE]
    stages = []
    pat = rep = lk = None
    if len(val_rets) != 1:
        order.append(f"{len(val_rets)} value returns")
    else:
        R = val_rets[0][1]

        def suffix_stage(t, what):
            """t == (X + '_' if C(X) else X)  ->  (C, X)"""
            if t[0] == "ifexp":
                for a, b, pol in ((t[2], t[3], True), (t[3], t[2], False)):
                    if a == ("bin", "Add", b, const("_")):
                        return t[1], b, pol
            return None
        # reserved
        r = suffix_stage(R, "reserved")
        v5 = None
        if r is None:
            order.append(f"the last stage is `{sh(R)}`, not `name + '_' if name in _get_reserved_names() else name`")
            if R[0] == "ifexp":
                details.append("a reserved name is not suffixed with '_'")
        else:
            c, v5, pol = r
            res_t = ("cmp", "In", v5, ("call", ("name", "_get_reserved_names"), (), ()))
            kw_t = ("call", ("attr", ("name", "keyword"), "iskeyword"), (v5,), ())
            def disjuncts(t):
                """the alternatives of a truth-valued term: `a or b`, `True if a else b` (a helper with `if a: return True; return b`)"""
                if t[0] == "bool" and t[1] == "or":
                    return set().union(*[disjuncts(x) for x in t[2]])
                if t[0] == "ifexp" and t[2] == ("const", "bool", True):
                    return disjuncts(t[1]) | disjuncts(t[3])
                if t[0] == "ifexp" and t[3] == ("const", "bool", True) and t[1][0] == "un" and t[1][1] == "Not":
                    return disjuncts(t[1][2]) | disjuncts(t[2])
                if t[0] == "call" and t[1] == ("name", "bool") and len(t[2]) == 1:
                    return disjuncts(t[2][0])
                return {t}
            parts = disjuncts(c)
            if not pol or res_t not in parts or parts - {res_t, kw_t}:
                details.append(f"reserved test is `{sh(c)}`")
            elif kw_t not in parts:
                details.append("a Python keyword (class, for, lambda, ...) is not suffixed with '_': `t.class` does not parse, the "
                               "advertised accessor would be unusable")
            stages.append("reserved")
        # look-alike
        v4 = None
        if v5 is not None:
            r = suffix_stage(v5, "lookalike")
            if r is None:
                order.append(f"before the reserved test the name is `{sh(v5)}`, not the look-alike stage (`x + '_'` if it looks like name__N)")
            else:
                c, v4, pol = r
                cc = c
                if cc[0] == "cmp" and cc[1] == "Is" and cc[3] == SNONE:
                    cc, pol = cc[2], not pol
                m = _regex_call(prog, f.module, cc, "match") or _regex_call(prog, f.module, cc, "fullmatch")
                if m is None or not pol or m[1] != (v4,):
                    details.append(f"the look-alike test is `{sh(c)}`, not a regex match on the name at that stage")
                else:
                    lk = m[0]
                stages.append("lookalike")
        # digit
        v3 = None
        if v4 is not None:
            ok = False
            if v4[0] == "ifexp":
                for a, b, pol in ((v4[2], v4[3], True), (v4[3], v4[2], False)):
                    if a[0] == "bin" and a[1] == "Add" and a[3] == b and a[2][0] == "const":
                        v3 = b
                        ok = True
                        if a[2] != const("c"):
                            details.append(f"a leading digit is handled by the prefix {a[2][2]!r}, expected the prefix 'c'")
                        want = ("call", ("attr", ("sub", b, const(0)), "isdigit"), (), ())
                        if not (pol and v4[1] == want):
                            details.append(f"the leading-digit test is `{sh(v4[1])}`: it does not look at the first character of the name at "
                                           f"that stage")
            if not ok:
                order.append(f"before the look-alike test the name is `{sh(v4)}`, not the leading-digit stage ('c' + x)")
            else:
                stages.append("digit")
        # strip, sub, lower, coerce
        if v3 is not None:
            if v3[0] == "call" and v3[1][0] == "attr" and v3[1][2] == "strip" and v3[2] == (const("_"),):
                stages.append("strip")
                v2 = v3[1][1]
                m = _regex_call(prog, f.module, v2, "sub")
                if m is None or len(m[1]) != 2:
                    order.append(f"what is stripped is `{sh(v2)}`, not re.sub(<invalid runs>, '_', lowered name)")
                else:
                    stages.append("sub")
                    pat, (rp, v1) = m[0], m[1]
                    rep = rp[2] if rp[0] == "const" else None
                    if v1[0] == "call" and v1[1][0] == "attr" and v1[1][2] == "lower" and not v1[2]:
                        stages.append("lower")
                        v0 = v1[1][1]
                        coerced = ("call", ("name", "str"), (nm,), ())
                        isn = ("call", ("name", "isinstance"), (nm, ("name", "str")), ())
                        if v0 in (("ifexp", isn, nm, coerced), coerced):
                            stages.append("coerce")
                        else:
                            order.append(f"the lowered value is `{sh(v0)}`, not the name coerced with str() when it is not a str")
                    else:
                        order.append(f"invalid runs are replaced in `{sh(v1)}`, not in the LOWERED name")
            else:
                order.append(f"the leading-digit test looks at `{sh(v3)}`, not at the name with outer underscores stripped "
                             f"('_2nd' must become 'c2nd')")
            # empty -> None
            ok_none = False
            for c, _ in none_rets:
                if len(c) == 1 and (c[0] == (("cmp", "Eq", v3, const("")), True) or c[0] == (v3, False)):
                    ok_none = True
            if ok_none:
                stages.append("empty")
            else:
                order.append("a name that is empty after stripping does not return None (before the digit / suffix stages)")
    want = {"coerce", "lower", "sub", "strip", "empty", "digit", "lookalike", "reserved"}
    ok = not order and set(stages) == want
    ctx.ob("a.sanitiser", f, "pipeline-order", ok, f"stages recovered from the returned term: {stages}", f.node,
           message=f"the sanitisation pipeline deviates from coerce -> lower -> sub -> strip -> empty -> digit -> look-alike -> reserved "
                   f"(e.g. the leading-digit prefix must be decided on the name AFTER outer underscores are stripped, '_2nd' -> 'c2nd'): "
                   + "; ".join(order or [f"stages found: {stages}"]))
    problems = list(details)
    if pat is not None:
        kept, why = _kept_alphabet(pat)
        if kept is None:
            problems.append(f"pattern {pat!r}: {why}")
        else:
            extra = sorted(c for c in kept if not re.fullmatch(r"[a-z0-9_]", c))
            if extra:
                problems.append(f"pattern {pat!r} keeps {extra[:5]}: the accessor would not be a valid identifier")
            missing = sorted(set("abcdefghijklmnopqrstuvwxyz0123456789_") - kept)
            if missing:
                problems.append(f"pattern {pat!r} also replaces {missing[:5]}")
            if why:
                problems.append(why)
        if rep != "_":
            problems.append(f"invalid runs are replaced by {rep!r}, not '_'")
    if lk is not None and lk != r"^.+__\d+$":
        problems.append(f"the indexed-accessor look-alike pattern is {lk!r}, expected '^.+__\\d+$'")
    ctx.ob("a.sanitiser", f, "steps", not problems, "kept alphabet [a-z0-9_], + quantifier, 'c' prefix, '_' suffixes", f.node,
           message="; ".join(problems))
    # reserved set is built from the public callables / properties of Vector and Table, lower-cased
    _reserved_source(ctx)


def _reserved_source(ctx) -> None:
    """naming._get_reserved_names on its symx event log: the set it caches / returns receives NAME.lower() for exactly the NAMEs of
    dir(Vector) and dir(Table) that do not start with '_' and whose class attribute is callable or a property."""
    from ..sites2 import interp_of, strip_seq
    from ..symx import NONE as SNONE
    from ..symx import const, flatten_conds, show, show_conds, subterms
    prog = ctx.prog
    g = prog.func("naming._get_reserved_names")
    it = interp_of(prog, g)
    problems = []
    rets = [e for e in it.events if e.kind == "return" and e.depth == 0]
    stores = {e.term: e.value for e in it.events if e.kind == "store" and e.term[0] == "attr"}
    sets = set()
    for e in rets:
        t = stores.get(e.term, e.term)
        t = strip_seq(it, t)
        if t[0] == "obj":
            sets.add(t)
        elif e.term not in stores:
            problems.append(f"returns `{show(e.term, it)[:40]}`, not the collected set")
    if len(sets) != 1:
        problems.append("the returned set of reserved names is not one collected set")
    else:
        S = next(iter(sets))
        adds = []
        # (the names may be collected per class into a set of their own first - a helper `_public_api_names(cls)` evaluated in line -
        #  and merged with reserved.update(<that set>): what is added to a merged set is added to the reserved set)
        parts, todo = [], [S]
        while todo:
            P = todo.pop()
            if P in parts:
                continue
            parts.append(P)
            for e in it.events:
                if e.kind == "call" and e.term[1][0] == "attr" and e.term[1][1] == P:
                    if e.term[1][2] == "add" and len(e.term[2]) == 1:
                        adds.append(e)
                    elif e.term[1][2] == "update" and len(e.term[2]) == 1 and e.term[2][0][0] == "obj" \
                            and it.objs[e.term[2][0][1]].kind in ("set", "setcomp", "genexp", "listcomp", "list") and not it.objs[e.term[2][0][1]].init:
                        todo.append(e.term[2][0])
                    else:
                        problems.append(f"`{show(e.term, it)[:50]}` changes the reserved set other than by add(name)")
                elif e.kind == "elem" and e.term == P:
                    adds.append(e)
        if any(it.objs[P[1]].init for P in parts):
            problems.append("the reserved set starts non-empty")
        seen = []
        for e in adds:
            v = e.value if e.kind == "elem" else e.term[2][0]
            src = None
            for L in e.loops:
                lp = it.loops[L]
                if lp.iter is not None and lp.iter[0] == "call" and lp.iter[1] == ("name", "dir") and len(lp.iter[2]) == 1:
                    src = (L, lp.iter, lp.iter[2][0])
            if src is None:
                problems.append(f"`{show(v, it)[:40]}` is added outside a loop over dir(<class>)")
                continue
            L, d, cls = src
            x = ("elem", d, L)
            if v != ("call", ("attr", x, "lower"), (), ()):
                problems.append(f"`{show(v, it)[:40]}` is added, expected NAME.lower()")
            attr = ("call", ("name", "getattr"), (cls, x, SNONE), ())
            c1 = ("call", ("name", "callable"), (attr,), ())
            c2 = ("call", ("name", "isinstance"), (attr, ("name", "property")), ())
            want = {(("call", ("attr", x, "startswith"), (const("_"),), ()), False)}
            got = {(t, pol) for t, pol in flatten_conds(e.conds) if any(y == x for y in subterms(t))}
            ors = {c for c in got if c[1] and c[0][0] == "bool" and c[0][1] == "or" and set(c[0][2]) == {c1, c2}}
            if got - ors != want or len(ors) != 1:
                problems.append(f"names of {show(cls)} are added under `{show_conds(sorted(got, key=str), it)[:120]}`, expected: not "
                                f"NAME.startswith('_') and (callable(attr) or isinstance(attr, property))")
            seen.append(cls)
        # every class that serves accessor names by attribute access: Table (and the Vector it extends) and Row (row.<accessor>)
        if sorted(seen) != [("name", "Row"), ("name", "Table"), ("name", "Vector")]:
            problems.append(f"names are collected from {[show(c) for c in seen]}, expected Vector, Table and Row (once each): a public "
                            f"name of a class that is left out (Row.set_index) shadows the column accessor of the same name on that class")
    ctx.ob("a.sanitiser", g, "reserved-source", not problems, "reserved = public callables/properties of Vector and Table", g.node,
           message="_get_reserved_names no longer collects every public callable/property of Vector and Table: " + "; ".join(problems[:2]))


# --------------------------------------------------------------------------------------------- b
def reserved_static(prog) -> Set[str]:
    out = set()
    for cname in ("Vector", "Table"):
        for c in prog.cls(cname).mro:
            for st in prog.classes[c].node.body:
                if isinstance(st, (ast.FunctionDef, ast.AsyncFunctionDef)) and not st.name.startswith("_"):
                    out.add(st.name.lower())
    return out


def _reserved(ctx) -> None:
    prog = ctx.prog
    res = reserved_static(prog)
    bad = sorted(r for r in res if r.endswith("_") and r[:-1] in res)
    bad += sorted(r for r in res if re.fullmatch(r"col\d+_", r) or re.fullmatch(r".+__\d+_?", r))
    ctx.ob("b.reserved-closed", "package", "reserved", not bad, f"{len(res)} reserved names, closed under the '_' suffix",
           message=f"public method name(s) {bad} collide with generated accessor forms: a column accessor could shadow a method")
    ctx.extra["reserved_names"] = sorted(res)


# --------------------------------------------------------------------------------------------- d
SITUATIONS = ("unnamed", "sanitises-to-nothing", "first", "repeat-ending-underscore", "repeat")
SPEC_KERNEL = {"unnamed": "f'col{IDX}_'", "sanitises-to-nothing": "f'col{IDX}_'", "first": "SAN",
               "repeat-ending-underscore": "f'{SAN}_{IDX}'", "repeat": "f'{SAN}__{IDX}'"}


class Kernel:
    """The accessor-naming kernel of one function, read off the symx event log: the per-column loop, the sanitised-name term, the
    `seen` record and the accessor term, evaluated in the five situations a column can be in."""

    def __init__(self, prog, f: FuncInfo, accessor_of):
        from ..symx import Interp as SInterp
        from ..symx import NONE as SNONE
        from ..symx import const, show, simplify, substitute, subterms
        self.f = f
        it = self.it = SInterp(prog, f)
        self.problems: List[str] = []
        site = accessor_of(it)
        if site is None:
            raise AnalysisError(f"{f.qualname}: the per-column accessor name was not found")
        ev, acc = site
        self.ev = ev
        if not ev.loops:
            raise AnalysisError(f"{f.qualname}: accessor names are not computed in a loop over the columns")
        L = ev.loops[0]
        lp = it.loops[L]
        self.loop = lp
        self.domain = lp.domain if lp.domain is not None else lp.iter
        col = ("elem", self.domain, L) if self.domain is not None else None
        self.col = col
        name = ("attr", col, "_name")
        sans = [t for t in subterms(acc) if t[0] == "call" and t[1] == ("name", "_sanitize_user_name")]
        for c, _ in ev.conds:
            sans += [t for t in subterms(c) if t[0] == "call" and t[1] == ("name", "_sanitize_user_name")]
        sans = list(dict.fromkeys(sans))
        if len(sans) != 1 or sans[0][2] != (name,):
            self.problems.append(f"the accessor is not derived from exactly one _sanitize_user_name(<the column's own stored name>) "
                                 f"({[show(x, it)[:40] for x in sans]})")
            self.forms = {}
            self.seen = None
            self.first_recorded = False
            self.record_conds = None
            self.seen_fresh = False
            return
        san = sans[0]
        # the `seen` record: the container the sanitised name is tested against
        seen = None
        for t in list(subterms(acc)) + [c for c, _ in ev.conds]:
            for x in subterms(t):
                if x[0] == "cmp" and x[1] == "In" and x[3][0] == "obj":
                    lhs = simplify(x[2], {("cmp", "Is", name, SNONE): False, name: True})
                    if lhs == san:
                        seen = x[3]
        self.seen = seen
        IDX, SAN = ("name", "IDX"), ("name", "SAN")
        self.forms: Dict[str, str] = {}
        ends = ("call", ("attr", san, "endswith"), (const("_"),), ())
        for sit in SITUATIONS:
            unnamed = sit == "unnamed"
            atoms = {("cmp", "Is", name, SNONE): unnamed, name: not unnamed}
            if not unnamed:
                atoms[("cmp", "Is", san, SNONE)] = sit == "sanitises-to-nothing"
                atoms[san] = sit != "sanitises-to-nothing"
                if sit != "sanitises-to-nothing" and seen is not None:
                    atoms[("cmp", "In", san, seen)] = sit.startswith("repeat")
                    atoms[ends] = sit == "repeat-ending-underscore"
            # path feasibility: the accessor event's own conditions must be consistent with the situation
            t = simplify(acc, atoms)
            t = substitute(t, {("idx", L): IDX, san: SAN})
            t = simplify(t, {})
            self.forms[sit] = show(t, it)
        # first occurrence is recorded in `seen`
        self.first_recorded = False
        self.record_conds = None
        if seen is not None:
            for e in it.events:
                rec = (e.kind == "call" and e.term[1] == ("attr", seen, "add") and len(e.term[2]) == 1) or \
                      (e.kind == "store" and e.term[0] == "sub" and e.term[1] == seen)
                if rec and L in e.loops:
                    k = e.term[2][0] if e.kind == "call" else e.term[2]
                    k = simplify(k, {("cmp", "Is", name, SNONE): False, name: True, ("cmp", "Is", san, SNONE): False, san: True})
                    if k == san:
                        self.first_recorded = True
                        self.record_conds = e.conds[len(lp.conds):]
            o = it.objs[seen[1]]
            self.seen_fresh = not o.loops and not o.init
        else:
            self.seen_fresh = False


def _map_accessor(it):
    """column_map[<accessor>] = idx  in Table._build_column_map"""
    rets = [e for e in it.events if e.kind == "return" and e.depth == 0 and e.term[0] == "obj"]
    if len(rets) != 1:
        return None
    m = rets[0].term
    stores = [e for e in it.events if e.kind == "store" and e.term[0] == "sub" and e.term[1] == m]
    if len(stores) != 1:
        return None
    return stores[0], stores[0].term[2]


def _header_accessor(it):
    """the sanitised-name list returned (second component) by display._compute_headers"""
    from ..symx import elements
    rets = [e for e in it.events if e.kind == "return" and e.depth == 0 and e.term[0] == "tuple" and len(e.term[1]) == 3]
    if len(rets) != 1 or rets[0].term[1][1][0] != "obj":
        return None
    els = elements(it, rets[0].term[1][1])
    if len(els) != 1:
        return None
    e = els[0]
    v = e.value if e.kind == "elem" else (e.term[2][0] if e.term[2] else None)
    return (e, v) if v is not None else None


def _kernels(ctx) -> None:
    from ..symx import show, show_conds
    prog = ctx.prog
    m = prog.func("table.Table._build_column_map")
    h = prog.func("display._compute_headers")
    km = Kernel(prog, m, _map_accessor)
    kh = Kernel(prog, h, _header_accessor)
    problems = list(km.problems)
    S = ("param", m.params[0])
    itm = km.it
    if not (km.loop.iter is not None and km.loop.domain == ("attr", S, "_underlying") and km.loop.kind == "for"):
        problems.append(f"the accessor map is built over `{show(km.loop.iter, itm)[:50]}`, not over all columns with their own positions")
    for sit in SITUATIONS:
        if km.forms.get(sit) != SPEC_KERNEL[sit]:
            problems.append(f"map kernel: a column that is {sit} gets {km.forms.get(sit)!r}, expected {SPEC_KERNEL[sit]!r}")
    if km.forms and not km.first_recorded:
        problems.append("map kernel: the first occurrence of a name is not recorded, so repeats are not detected")
    if km.forms and km.record_conds is not None:
        extra = [c for c in km.record_conds if not _kernel_atom(km, c)]
        if extra:
            problems.append(f"map kernel: a first occurrence is recorded only under `{show_conds(extra, itm)[:60]}`")
    # every column gets exactly one entry mapped to its own position
    ev = km.ev
    if ev.conds[len(km.loop.conds):] or ev.value != ("idx", km.loop.id) or ev.loops != (km.loop.id,):
        problems.append("not every column gets exactly one accessor mapped to its own position")
    ctx.ob("d.kernels-agree", m, "map-kernel", not problems, f"map kernel: {km.forms}", m.node, message="; ".join(problems))
    # item access t['<accessor>'] compares the key with the accessor forms it rebuilds itself: the form of a repeated name
    # (<base>__<position>, no third underscore after a base that ends in one) must be the very term the map kernel stores
    from .c07 import _name_forms, _walk
    from ..symx import subterms as _subt

    from ..symx import const as _const, show as _show, simplify as _simplify, substitute as _subst
    single, multi = _name_forms(prog)
    get_forms = set()
    for frm in single | multi:
        for y in _walk(frm):
            if isinstance(y, tuple) and y and y[0] == "fstr" and any(z == ("IDX",) for z in _walk(y)) \
                    and any(isinstance(z, tuple) and z[:2] == ("call", ("name", "_sanitize_user_name")) for z in _walk(y)):
                get_forms.add(y)
    # ... evaluated like the kernel's: in the two situations of a repeated name (its sanitised base ends in '_' or not)
    get_shown = {}
    for g in get_forms:
        sans_ = list(dict.fromkeys(z for z in _walk(g) if isinstance(z, tuple) and z[:2] == ("call", ("name", "_sanitize_user_name"))))
        for sit in ("repeat", "repeat-ending-underscore"):
            t_ = g
            for s_ in sans_:
                # (a repeated name is a name: `base = _sanitize_user_name(n) if n is not None else None` collapses to the call)
                for nm_ in s_[2]:
                    t_ = _simplify(t_, {("cmp", "Is", nm_, ("const", "NoneType", None)): False,
                                        ("cmp", "IsNot", nm_, ("const", "NoneType", None)): True, nm_: True})
                t_ = _simplify(t_, {("call", ("attr", s_, "endswith"), (_const("_"),), ()): sit == "repeat-ending-underscore", s_: True})
                t_ = _subst(t_, {s_: ("name", "SAN")})
            t_ = _simplify(_subst(t_, {("IDX",): ("name", "IDX")}), {})
            get_shown.setdefault(sit, set()).add(_show(t_, km.it))
    want = {sit: {km.forms.get(sit)} for sit in ("repeat", "repeat-ending-underscore")}
    map_forms = want
    get_forms = get_shown if get_forms else {}
    g_ = prog.func("table.Table.__getitem__")
    ctx.ob("d.kernels-agree", g_, "getitem-form", bool(get_forms) and get_forms == map_forms,
           f"t['<base>__<n>'] is matched by the map kernel's own forms {get_forms}", g_.node,
           message="Table.__getitem__ rebuilds the accessor of a repeated name differently from the accessor map: for a base that ends in '_' "
                   "(a reserved or keyword name: sum_ -> sum__1) t['sum__1'], sort_by('sum__1') miss the column that t.sum__1 finds")
    problems = list(kh.problems)
    ith = kh.it
    cols_param = ("param", h.params[0])
    if not (kh.loop.domain == cols_param and kh.loop.kind == "for" and kh.loop.iter is not None and kh.loop.iter[0] == "call"
            and kh.loop.iter[1] == ("name", "enumerate")):
        problems.append(f"the repr header names are computed over `{show(kh.loop.iter, ith)[:50]}`: repeated names must be detected over ALL "
                        f"columns (a hidden column may own the plain accessor), with each column's own position")
    for sit in SITUATIONS:
        if kh.forms.get(sit) != km.forms.get(sit):
            problems.append(f"repr header kernel: a column that is {sit} is advertised as {kh.forms.get(sit)!r}, the accessor map has "
                            f"{km.forms.get(sit)!r}")
    if kh.forms and not kh.first_recorded:
        problems.append("repr header kernel: the first occurrence of a name is not recorded")
    if kh.record_conds is not None:
        extra = [c for c in kh.record_conds if not _kernel_atom(kh, c)]
        if extra:
            problems.append(f"hidden columns are skipped BEFORE their name is recorded (recorded only under `{show_conds(extra, ith)[:60]}`): "
                            f"a shown repeat would be advertised with the plain name")
    if kh.forms and not kh.seen_fresh:
        problems.append("the record of seen names does not start empty for every call")
    ctx.ob("d.kernels-agree", h, "header-kernel", not problems, f"header kernel: {kh.forms}", h.node, message="; ".join(problems))


def _kernel_atom(k: "Kernel", c) -> bool:
    """Is condition literal c about the column's own name / its sanitised form / the seen record (a kernel case split)?"""
    from ..symx import deep_subterms, subterms
    t, _ = c
    name = ("attr", k.col, "_name")
    # ... and about nothing else: a condition that also looks at the column's POSITION or at another argument of the function (which
    # columns are displayed) is a filter on the columns, not a case split of the naming kernel - `idx not in shown and col._name not
    # in shown_names` lets a hidden column pass unrecorded although it owns the plain accessor of a displayed one
    params = tuple(getattr(k, "f", None).params) if getattr(k, "f", None) is not None else ()
    for x in deep_subterms(k.it, t):
        if x == ("idx", k.loop.id):
            return False
        if x[0] == "param" and params and x[1] != params[0]:
            return False
    for x in subterms(t):
        if x == name or (k.seen is not None and x == k.seen):
            return True
    return False


# --------------------------------------------------------------------------------------------- e
_MAP_VARS: Set[str] = set()


def _map_vars(f: FuncInfo) -> Set[str]:
    d = Defs(f)
    return {n for n, lst in d.assigns.items()
            if any(v is not None and short(v) in ("self._current_column_map()", "self._column_map") for v, _, _ in lst)}


def _is_map_lookup(node) -> bool:
    st = node.ast
    if st is None:
        return False
    for n in ast.walk(st) if node.kind in ("stmt", "test") else []:
        if isinstance(n, ast.Call) and isinstance(n.func, ast.Attribute) and n.func.attr == "get" \
                and (short(n.func.value) in ("self._column_map", "self._current_column_map()") or short(n.func.value) in _MAP_VARS):
            return True
    return False


def _unlooked_classes(it, e, SELF, exempt) -> Optional[List[str]]:
    """classes of paths to event e on which the accessor map was not consulted (and that are not exempt); None: too many classes"""
    from ..symx import dnf, show_conds, subterms
    MAP = ("call", ("attr", SELF, "_current_column_map"), (), ())

    def looked(t) -> bool:
        return any(x == MAP for x in subterms(t))
    classes = dnf(e.conds)
    if classes is None:
        return None
    out = []
    for cl in classes:
        if any(looked(t) for t, pol in cl) or any(exempt(t, pol) for t, pol in cl):
            continue
        out.append(show_conds(sorted(cl, key=str), it)[:200])
    return out


def _lookup(ctx) -> None:
    """Which classes of paths reach the generic fallback / the rejection: each must carry a condition on the result of a lookup in
    the map obtained from _current_column_map() - on the symx event log, private helpers in line."""
    from ..sites2 import interp_of
    from ..symx import NONE as SNONE
    from ..symx import flatten_conds, show, subterms
    prog = ctx.prog
    # __getattr__: the generic fallback (`super().__getattribute__`)
    f = prog.func("table.Table.__getattr__")
    it = interp_of(prog, f)
    S = ("param", f.params[0])
    fallback = [e for e in it.events if e.kind == "call" and e.term[1][0] == "attr" and e.term[1][2] == "__getattribute__"
                and e.term[1][1] == ("call", ("name", "super"), (), ())]
    if not fallback:
        raise AnalysisError("Table.__getattr__: fallback to super().__getattribute__ not found")
    bad = []
    for e in fallback:
        r = _unlooked_classes(it, e, S, lambda t, pol: False)
        if r is None:
            raise AnalysisError("Table.__getattr__: path classes of the fallback too many to enumerate")
        bad += r
    ctx.ob("e.lookup-reached", f, "getattr", not bad, "every path to the generic fallback consults the accessor map", fallback[0].node,
           message="an advertised accessor can fail to resolve: a path reaches the generic attribute fallback without looking the name up "
                   "in the accessor map: when " + "; or when ".join(bad[:2]), witness="; ".join(bad[:2]))
    # __setattr__: every AttributeError is about an indexed accessor, precedes initialisation, or follows a lookup
    f = prog.func("table.Table.__setattr__")
    it = interp_of(prog, f)
    S, A = ("param", f.params[0]), ("param", f.params[1])
    cmap = ("attr", S, "_column_map")
    parsed = ("call", ("name", "_parse_indexed_attr"), (A,), ())

    def exempt(t, pol) -> bool:
        if t == ("cmp", "Is", cmap, SNONE) and pol:
            return True                                   # not initialised yet
        if t[0] == "cmp" and t[1] == "Is" and t[3] == SNONE and t[2] == ("sub", parsed, ("const", "int", 1)) and not pol:
            return True                                   # an indexed accessor (name__N): validated on its own
        return False
    final = [e for e in it.events if e.kind == "raise" and e.term[0] == "call" and e.term[1] == ("name", "AttributeError")]
    if not final:
        raise AnalysisError("Table.__setattr__: rejection not found")
    bad = []
    for e in final:
        r = _unlooked_classes(it, e, S, exempt)
        if r is None:
            raise AnalysisError("Table.__setattr__: path classes of a rejection too many to enumerate")
        bad += r
    ctx.ob("e.lookup-reached", f, "setattr", not bad, "column assignment consults the accessor map before rejecting", final[-1].node,
           message="t.<accessor> = value can be rejected without looking the accessor up: when " + "; or when ".join(bad[:2]))
    # __setitem__ string specs: every column given by name is looked up in the (fresh) accessor map - on the symx event log
    f = prog.func("table.Table.__setitem__")
    it = interp_of(prog, f)
    S = ("param", f.params[0])
    MAP = ("call", ("attr", S, "_current_column_map"), (), ())
    subjects = []
    for e in it.events:
        for t, pol in flatten_conds(e.conds):
            if pol and t[0] == "call" and t[1] == ("name", "isinstance") and len(t[2]) == 2 and t[2][1] == ("name", "str") \
                    and t[2][0] not in subjects:
                subjects.append(t[2][0])
    problems = []
    for x in subjects:
        lit = (("call", ("name", "isinstance"), (x, ("name", "str")), ()), True)
        looked = [e for e in it.events if e.kind == "call" and e.term[1] == ("attr", MAP, "get") and e.term[2] and e.term[2][0] == x
                  and lit in flatten_conds(e.conds)]
        if not looked:
            problems.append(f"the branch for a column given by name (`{show(x, it)[:40]}`) does not look the name up in the accessor map "
                            f"obtained from _current_column_map()")
    ctx.ob("e.lookup-reached", f, "setitem", not problems and len(subjects) >= 1,
           f"{len(subjects)} string column spec(s) resolved through the accessor map", f.node,
           message="; ".join(problems) or "string column specs of Table.__setitem__ not found")


# --------------------------------------------------------------------------------------------- f
def _is_all_columns(src, S) -> bool:
    """self._underlying  /  self._underlying or []  /  self.cols()"""
    und = ("attr", S, "_underlying")
    if src == und or src == ("call", ("attr", S, "cols"), (), ()):
        return True
    return src[0] == "bool" and src[1] == "or" and len(src[2]) == 2 and src[2][0] == und and src[2][1][0] in ("obj", "tuple")


def _fresh(ctx) -> None:
    prog = ctx.prog
    # the WRITER side of the freshness protocol: a table rebuilds its accessor map when one of its columns is marked wild, so every
    # method of a vector that stores its own name marks it wild on the same path (a rename through a live column view - col.alias(..),
    # col.name = .. - is otherwise never noticed by the table)
    from ..symx import Interp as _WI
    from ..symx import show as _wshow
    from .c08 import _compatible as _wcompat
    unmarked = []
    n_writers = 0
    for q, fn in sorted(prog.functions.items()):
        if fn.cls != "Vector" or isinstance(fn.node, ast.Lambda) or fn.parent is not None or not fn.params:
            continue
        if not any(isinstance(n, ast.Attribute) and n.attr == "_name" and isinstance(n.ctx, ast.Store) for n in ast.walk(fn.node)):
            continue
        wi = _WI(prog, fn)
        WS = ("param", fn.params[0])
        names = [e for e in wi.events if e.kind == "store" and e.term == ("attr", WS, "_name")]
        marks = [e for e in wi.events if e.kind == "store" and e.term == ("attr", WS, "_wild") and e.value == ("const", "bool", True)]
        if not names:
            continue
        n_writers += 1
        for e in names:
            if not any(tuple(m.conds) == tuple(e.conds) or (_wcompat(m.conds, e.conds) and len(m.conds) <= len(e.conds)) for m in marks):
                unmarked.append(f"{q} (line {getattr(e.node, 'lineno', '?')}) stores self._name without `self._wild = True`")
    ctx.ob("f.map-fresh", "package", "name-writes-mark-wild", not unmarked and n_writers >= 2,
           f"{n_writers} vector methods store their own name, each marking the vector wild", None,
           message="; ".join(unmarked[:2]) + ": a column renamed through a live view keeps its old accessor in the table's map (dir(), the "
                   "repr dot row and attribute access go stale until something else rebuilds the map)")
    allowed_loads = {
        "table.Table._current_column_map": "the freshness helper itself",
        "table.Row.__getattr__": "a Row reads its own snapshot taken at creation",
        "table.Row.__getitem__": "a Row reads its own snapshot taken at creation",
        "table.Table.__setattr__": "the `is not None` initialisation test only",
    }
    n_reads = 0

    def row_receiver(f, name, depth=0):
        """Is the parameter `name` of f always a Row (whose map is its own snapshot taken at creation)?  A method of Row reading
        its receiver; or a module-level helper every call of which, anywhere in the package, passes such a receiver there."""
        if f.cls == "Row" and f.parent is None:
            return bool(f.params) and name == f.params[0]
        if f.cls is not None or f.parent is not None or depth > 3 or name not in f.params:
            return False
        pos = f.params.index(name)
        calls = []
        for q2, g in prog.functions.items():
            if isinstance(g.node, ast.Lambda):
                continue
            if g.module != f.module:
                # a helper imported elsewhere under its name: any mention at all is a use we cannot see through
                if any(isinstance(n, ast.Name) and n.id == f.name for n in walk_no_nested(g.node)):
                    return False
                continue
            for n in walk_no_nested(g.node):
                if isinstance(n, ast.Name) and n.id == f.name and isinstance(n.ctx, ast.Load):
                    par = prog.parent(n)
                    if not (isinstance(par, ast.Call) and par.func is n):
                        return False
                    calls.append((g, par))
        if not calls:
            return False
        for g, c in calls:
            arg = c.args[pos] if pos < len(c.args) and not any(isinstance(a, ast.Starred) for a in c.args) else \
                next((k.value for k in c.keywords if k.arg == name), None)
            if not (isinstance(arg, ast.Name) and row_receiver(g, arg.id, depth + 1)):
                return False
        return True

    for q, f in sorted(prog.functions.items()):
        if isinstance(f.node, ast.Lambda):
            continue
        for n in walk_no_nested(f.node):
            if isinstance(n, ast.Attribute) and n.attr == "_column_map" and isinstance(n.ctx, ast.Load):
                n_reads += 1
                ok = q in allowed_loads or (isinstance(n.value, ast.Name) and row_receiver(f, n.value.id))
                if q == "table.Table.__setattr__":
                    par = prog.parent(n)
                    ok = isinstance(par, ast.Compare) and short(par) == "self._column_map is not None"
                ctx.ob("f.map-fresh", f, f"read:{n.lineno - f.lineno}", ok, f"read of _column_map in {q}: {allowed_loads.get(q, '')}", n,
                       message=f"{q} reads `{short(n)}` directly (line {n.lineno}): after a rename through a live column view the map is stale "
                               f"until rebuilt - read it through _current_column_map()")
    # the helper itself: rebuild-and-store when any column is flagged as renamed, then return the stored map (symx events)
    from ..sites2 import interp_of, single_element
    from ..symx import flatten_conds
    h = prog.func("table.Table._current_column_map")
    hi = interp_of(prog, h)
    HS = ("param", h.params[0])
    mapf = ("attr", HS, "_column_map")
    rebuild = ("call", ("attr", HS, "_build_column_map"), (), ())
    cols_src = (("attr", HS, "_underlying"), ("bool", "or", (("attr", HS, "_underlying"), None)))
    stores = [e for e in hi.events if e.kind == "store" and e.term == mapf and e.value == rebuild]
    ok = False
    for e in stores:
        fc = flatten_conds(e.conds)
        # form A: if any(c._wild for c in <columns>): ...
        for t, pol in fc:
            if pol and t[0] == "call" and t[1] == ("name", "any") and len(t[2]) == 1 and t[2][0][0] == "obj":
                se = single_element(hi, t[2][0])
                if se is not None and len(se[0]) == 1 and not se[1]:
                    src = hi.loops[se[0][0]].iter
                    if se[2] == ("attr", ("elem", src, se[0][0]), "_wild") and _is_all_columns(src, HS):
                        ok = True
        # form B: for c in <columns>: if c._wild: rebuild
        for L in e.loops:
            lp = hi.loops[L]
            inside = flatten_conds(e.conds[len(lp.conds):])
            if lp.iter is not None and _is_all_columns(lp.iter, HS) and inside == [(("attr", ("elem", lp.iter, L), "_wild"), True)]:
                ok = True
    rets = [e for e in hi.events if e.kind == "return" and e.depth == 0]
    ok = ok and bool(rets) and all(e.term == mapf for e in rets) and not hi.falls_through
    ctx.ob("f.map-fresh", h, "helper", ok, "helper rebuilds and stores the map when any column is flagged as renamed", h.node,
           message="_current_column_map no longer rebuilds-and-stores the map when a column is flagged as renamed")
    # _build_column_map results are stored
    for q, f in sorted(prog.functions.items()):
        if isinstance(f.node, ast.Lambda):
            continue
        for c in prog.calls_in(f):
            if isinstance(c.func, ast.Attribute) and c.func.attr == "_build_column_map":
                par = prog.parent(c)
                stored = (isinstance(par, ast.Assign) and short(par.targets[0]) == "self._column_map") or \
                    (isinstance(par, ast.Call) and short(par.func) == "object.__setattr__" and len(par.args) == 3
                     and isinstance(par.args[1], ast.Constant) and par.args[1].value == "_column_map")
                ctx.ob("f.map-fresh", f, f"build:{c.lineno - f.lineno}", stored, "result of _build_column_map() is stored as the table's map", c,
                       message=f"{q} builds a map (`{short(par, 60)}`) and throws it away; _build_column_map un-flags the renamed columns "
                               f"as a side effect, so the stored map would stay stale for good")
    # name stores in Table methods are followed by a rebuild
    for q in ("table.Table.rename_column", "table.Table.rename_columns", "table.Table._replace_column", "table.Table.__init__"):
        f = prog.func(q)
        cfg = cfg_of(f)
        stores = [n for n in cfg.stmt_nodes() if isinstance(n.ast, ast.Assign) and isinstance(n.ast.targets[0], ast.Attribute)
                  and n.ast.targets[0].attr == "_name" and short(n.ast.targets[0].value) != "self"]

        def rebuild(n):
            t = n.text()
            return "_build_column_map()" in t and "_column_map" in t.split("_build_column_map")[0]
        bad = []
        for s in stores:
            p = cfg.path_avoiding(s, [cfg.exit], rebuild)
            if p is not None:
                bad.append(f"after `{s.text()}` (line {s.lineno}) the function can return without rebuilding the accessor map")
        ctx.ob("f.map-fresh", f, "rebuild-after-rename", not bad and bool(stores), f"{len(stores)} name store(s), each followed by a rebuild", f.node,
               message=f"{q}: " + ("; ".join(bad) if bad else "no store to a column name found"))


# --------------------------------------------------------------------------------------------- g
def _untouched(ctx) -> None:
    prog = ctx.prog
    eff = effects_of(prog)
    for q in ("naming._sanitize_user_name", "table.Table._build_column_map", "table.Table.__dir__", "display._printr",
              "table.Table._current_column_map"):
        s = eff.summary(q)
        ws = [w for w in s.writes if w.fld in ("_name", "name")]
        f = prog.func(q)
        ctx.ob("g.names-untouched", f, "no-name-write", not ws, "never writes a stored name", f.node,
               message=f"{q} writes a stored column name: " + "; ".join(f"{w.func}:{w.line} `{w.text}`" for w in ws[:2]))


_T, _N, _D = "table", "naming", "display"
MUTANTS = [
    dict(id="getitem-accessor-form-triple-underscore", module=_T, count=2, nth=0,
         old="{'' if base.endswith('_') else '_'}_{idx}\"", new="__{idx}\"", rules=["d.kernels-agree"], desc="reverts the fix for t['sum__1']"),
    dict(id="regex-keeps-spaces", module=_N, old="	sanitized = re.sub(r'[^a-z0-9_]+', '_', name)", new="	sanitized = re.sub(r'[^a-z0-9_ ]+', '_', name)",
         rules=["a.sanitiser"]),
    dict(id="regex-not-collapsing", module=_N, old="	sanitized = re.sub(r'[^a-z0-9_]+', '_', name)", new="	sanitized = re.sub(r'[^a-z0-9_]', '_', name)",
         rules=["a.sanitiser"]),
    dict(id="digit-prefix-dropped", module=_N, old="	if sanitized[0].isdigit():\n		sanitized = \"c\" + sanitized\n", new="", rules=["a.sanitiser"]),
    dict(id="digit-prefix-before-strip", module=_N,
         edits=[(_N, "	# Strip leading/trailing _\n	sanitized = sanitized.strip('_')\n", "", 1),
                (_N, "	# Starts with digit → prefix c\n	if sanitized[0].isdigit():\n		sanitized = \"c\" + sanitized\n",
                 "	# Starts with digit → prefix c\n	if sanitized[:1].isdigit():\n		sanitized = \"c\" + sanitized\n	sanitized = sanitized.strip('_')\n", 1)],
         rules=["a.sanitiser"]),
    dict(id="keywords-not-suffixed", module=_N, old="	if sanitized in _get_reserved_names() or keyword.iskeyword(sanitized):",
         new="	if sanitized in _get_reserved_names():", rules=["a.sanitiser"],
         desc="the defect repaired by fix d929723: a column named 'class' is advertised as .class"),
    dict(id="reserved-properties-forgotten", module=_N, old="				if callable(attr) or isinstance(attr, property):", new="				if callable(attr):",
         rules=["a.sanitiser"], desc="a column named like a property (shape, name, T) would shadow it"),
    dict(id="reserved-only-vector", module=_N, old="		for cls in (Vector, Table, Row):", new="		for cls in (Vector,):", rules=["a.sanitiser"]),
    dict(id="reserved-without-row", module=_N, old="		for cls in (Vector, Table, Row):", new="		for cls in (Vector, Table):", rules=["a.sanitiser"],
         desc="reverts the fix: a column named 'set_index' is advertised as .set_index, which a Row answers with its own method"),
    dict(id="reserved-not-lowered", module=_N, old="					reserved.add(name.lower())", new="					reserved.add(name)", rules=["a.sanitiser"]),
    dict(id="reserved-suffix-dropped", module=_N, old="	if sanitized in _get_reserved_names() or keyword.iskeyword(sanitized):\n		sanitized = sanitized + '_'\n", new="", rules=["a.sanitiser"]),
    dict(id="headers-sep-differs", module=_D, old="				sep = \"\" if san.endswith(\"_\") else \"_\"", new="				sep = \"_\"", rules=["d.kernels-agree"]),
    dict(id="headers-over-shown-only", module=_D, old="	for idx, col in enumerate(cols):\n		# Sanitized dot name",
         new="	for idx in col_indices:\n		col = cols[idx]\n		# Sanitized dot name", rules=["d.kernels-agree"]),
    dict(id="map-read-without-helper", module=_T, old="			column_map = self._current_column_map()\n			col_idx = column_map.get(attr) or column_map.get(attr.lower())",
         new="			column_map = self._column_map\n			col_idx = column_map.get(attr) or column_map.get(attr.lower())", rules=["f.map-fresh"]),
    dict(id="getattr-colN-fallthrough-again", module=_T,
         old="		elif attr.startswith('col') and attr.endswith('_') and attr[3:-1].isdigit():\n			idx = int(attr[3:-1])  # Extract between 'col' and '_'\n			if 0 <= idx < len(self._underlying):\n				return self._underlying[idx]\n			raise AttributeError(f\"Column index {idx} out of range\")",
         new="		elif attr.startswith('col') and attr.endswith('_'):\n			if attr[3:-1].isdigit():\n				idx = int(attr[3:-1])\n				if 0 <= idx < len(self._underlying):\n					return self._underlying[idx]\n				raise AttributeError(f\"Column index {idx} out of range\")",
         rules=["e.lookup-reached"]),
    dict(id="dir-builds-and-discards", module=_T, old="		return set(list(self._current_column_map().keys()) + base_attrs)",
         new="		return set(list(self._build_column_map().keys()) + base_attrs)", rules=["f.map-fresh"]),
    dict(id="replace-column-no-rebuild", module=_T,
         old="		# Rebuild column map to reflect any structural changes\n		object.__setattr__(self, '_column_map', self._build_column_map())\n\n	def rename_column",
         new="		new_col._mark_tame()\n\n	def rename_column", rules=["f.map-fresh"]),
    dict(id="rename-column-no-rebuild", module=_T, old="				col._name = new_name\n				self._column_map = self._build_column_map()\n				return self",
         new="				col._name = new_name\n				return self", rules=["f.map-fresh"]),
    dict(id="build-map-normalises-stored-name", module=_T, old="				base = _sanitize_user_name(col._name)\n				if base is None:\n					sanitized = f'col{idx}_'",
         new="				base = _sanitize_user_name(col._name)\n				col._name = str(col._name)\n				if base is None:\n					sanitized = f'col{idx}_'", rules=["g.names-untouched"]),
    dict(id="map-dup-uses-count", module=_T, old="					sanitized = f\"{base}{sep}_{idx}\"", new="					sanitized = f\"{base}{sep}_{len(seen)}\"",
         rules=["d.kernels-agree"]),
    dict(id="twin-rename-seen", module=_D, twin=True, edits=[(_D, "	seen = set()\n	shown = set(col_indices)", "	seen = set()\n	shown = frozenset(col_indices)", 1)]),
]

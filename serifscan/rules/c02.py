"""C02 - tables stay rectangular; row views agree with column views.

Invariant: every column of a Table has len == table._length.  It can only be broken where a
column tuple is stored (construction, column replacement) or where a column changes length
(in-place writes, promotion).  The rules decide that every such site preserves it, and that the
row views index the very column tuples by one row index.
"""
from __future__ import annotations

import ast
from typing import List, Optional, Tuple

from ..astutil import Defs
from ..cfg import cfg_of
from ..core import AnalysisError, FuncInfo, attr_chain, cshort, kwarg, short, walk_no_nested, walk_stmts
from ..effects import MUTATING_BUILTIN
from .c01 import _field_stores
from . import c07


def run(ctx) -> None:
    ctx.rule("a.length-guard", "every store of a Table's column tuple is dominated by a guard that raises unless EVERY "
                               "incoming column has the table's length (construction: loop over all columns; replacement / "
                               ">> dict: len(value) != self._length, conjoined at most with `self._underlying`)", 4)
    ctx.rule("a.length-field", "_length is stored only by Table.__init__ (from the first column) and __len__ returns it", 2)
    ctx.rule("b.write-keeps-length", "Vector.__setitem__ materialises list(<old storage>) and only ever assigns single positions "
                                     "of it; _promote rebuilds from ALL elements (no filter): a column never changes length", 2)
    ctx.rule("c.uniform-rows", "row slices / masks / index vectors map the same key over all columns (as C07.e)", 4)
    ctx.rule("d.row-view", "Row snapshots [col._underlying for col in table._underlying] (unfiltered, in order, straight from the "
                           "table) and every Row accessor indexes that snapshot with the row index; iteration yields rows 0..len-1", 6)
    ctx.rule("e.structural-ops", ">> keeps the existing columns first and untouched, << appends per column over zip(strict) after "
                                 "a width check (a str cell is one cell), .T builds row i from column cells [i] of all columns", 5)
    ctx.section("guards", _guards, ctx)
    ctx.section("length-field", _length_field, ctx)
    ctx.section("writes", _writes, ctx)
    ctx.section("rows", _rows, ctx)
    ctx.section("row-view", _row_view, ctx)
    ctx.section("structural", _structural, ctx)
    ctx.not_decided += ["cell equality of >>, <<, .T.T results as values", "that a rejected update leaves the table unchanged (C08)"]


def _is_len_ne(t: ast.AST, var: str) -> bool:
    return isinstance(t, ast.Compare) and len(t.ops) == 1 and isinstance(t.ops[0], ast.NotEq) \
        and {short(t.left), short(t.comparators[0])} == {f"len({var})", "self._length"}


def _guard_test_ok(t: ast.AST, var: str) -> Optional[str]:
    """test must be `len(var) != self._length`, optionally `self._underlying and <that>`."""
    if _is_len_ne(t, var):
        return None
    if isinstance(t, ast.BoolOp) and isinstance(t.op, ast.And):
        rest = [v for v in t.values if not _is_len_ne(v, var)]
        if len(rest) == len(t.values):
            return f"`{short(t)}` does not compare len({var}) with the table length"
        bad = [v for v in rest if short(v) != "self._underlying"]
        if bad:
            return (f"the length check is skipped unless `{short(bad[0])}`: a wrong-length column would be stored when that is "
                    f"false (e.g. a table with columns but no rows)")
        return None
    return f"`{short(t)}` is not a length check of `{var}` against the table length"


def _guards(ctx) -> None:
    prog = ctx.prog
    # ---- construction
    f = prog.func("table.Table.__init__")
    cfg = cfg_of(f)
    sup = [n for n in cfg.stmt_nodes() if isinstance(n.ast, ast.Expr) and isinstance(n.ast.value, ast.Call)
           and short(n.ast.value.func) == "super().__init__"]
    if len(sup) != 1:
        raise AnalysisError("Table.__init__: super().__init__ call not found")
    problems = []
    loops = [s for s in f.body if isinstance(s, ast.For)]
    guard_loop = None
    for lp in loops:
        if not isinstance(lp.target, ast.Name):
            continue
        v = lp.target.id
        for s in lp.body:
            if isinstance(s, ast.If) and any(isinstance(b, ast.Raise) for b in s.body) and _is_len_ne(s.test, v):
                guard_loop = lp
    if guard_loop is None:
        # equivalent one-liner: if any(len(c) != self._length for c in initial): raise
        for st in f.body:
            if isinstance(st, ast.If) and any(isinstance(b, ast.Raise) for b in st.body) and isinstance(st.test, ast.Call) \
                    and short(st.test.func) == "any" and st.test.args and isinstance(st.test.args[0], ast.GeneratorExp):
                g = st.test.args[0]
                if len(g.generators) == 1 and not g.generators[0].ifs and isinstance(g.generators[0].target, ast.Name) \
                        and _is_len_ne(g.elt, g.generators[0].target.id):
                    guard_loop = st
                    guard_loop_iter = g.generators[0].iter
    else:
        guard_loop_iter = guard_loop.iter
    if guard_loop is None:
        problems.append("no loop compares the length of every incoming column with the table length before the columns are "
                        "stored: the row count is taken from the first column only, so unequal columns give a ragged table")
    else:
        if short(guard_loop_iter) != f.params[1]:
            problems.append(f"the length guard ranges over `{short(guard_loop_iter)}`, not over all incoming columns `{f.params[1]}`")
        gl = cfg.node_of(guard_loop)
        if not cfg.dominates(gl, sup[0]):
            problems.append("the length guard does not dominate the store of the columns")
        # _length is taken from the same sequence
        ls = [s for s in f.body if isinstance(s, ast.Assign) and short(s.targets[0]) == "self._length"]
        if not ls or short(ls[0].value) != f"len({f.params[1]}[0]) if {f.params[1]} else 0":
            problems.append(f"_length is `{short(ls[0].value) if ls else '?'}`, expected len(initial[0]) if initial else 0")
        elif f.body.index(ls[0]) > f.body.index(guard_loop):
            problems.append("_length is computed after the guard that uses it")
        # `initial` not rebound between guard and copy except by the copying statement
    ctx.ob("a.length-guard", f, "construction", not problems, "all incoming columns are compared with the table length before the store",
           guard_loop or f.node, message="; ".join(problems))
    # ---- replacement callers
    n_calls = 0
    for g in prog.functions.values():
        if isinstance(g.node, ast.Lambda):
            continue
        gcfg = cfg_of(g)
        for c in prog.calls_in(g):
            if isinstance(c.func, ast.Attribute) and c.func.attr == "_replace_column" and len(c.args) == 2:
                n_calls += 1
                val = short(c.args[1])
                node = gcfg.enclosing_stmt_node(prog, c)
                ok = False
                why = f"no raising guard `len({val}) != self._length` dominates the replacement"
                for t in gcfg.nodes:
                    if t.kind == "test" and gcfg.dominates(t, node):
                        tsucc = [s for s, lab in t.succ if lab == "T"]
                        raises_on_true = all(isinstance(s.ast, ast.Raise) for s in tsucc) and bool(tsucc)
                        if raises_on_true and f"len({val})" in short(t.ast):
                            bad = _guard_test_ok(t.ast, val)
                            if bad is None:
                                ok = True
                            else:
                                why = bad
                ctx.ob("a.length-guard", g, f"replace:{n_calls}", ok, f"replacement of a column by `{val}` is length-checked", c,
                       message=f"{g.qualname}: {why}")
    if n_calls < 2:
        raise AnalysisError(f"expected at least 2 _replace_column call sites, found {n_calls}")
    # ---- >> dict
    f = prog.func("table.Table.__rshift__")
    cfg = cfg_of(f)
    probs = []
    new_cols = None
    for st in walk_stmts(f.body):
        if isinstance(st, ast.Return) and isinstance(st.value, ast.Call) and short(st.value.func) == "Table" and st.value.args \
                and isinstance(st.value.args[0], ast.BinOp) and short(st.value.args[0].left) == "tuple(self._underlying)":
            r = st.value.args[0].right
            if isinstance(r, ast.Call) and short(r.func) == "tuple" and r.args and isinstance(r.args[0], ast.Name):
                new_cols = r.args[0].id
    apps = [n for n in cfg.stmt_nodes() if isinstance(n.ast, ast.Expr) and isinstance(n.ast.value, ast.Call)
            and isinstance(n.ast.value.func, ast.Attribute) and n.ast.value.func.attr == "append"
            and short(n.ast.value.func.value) == new_cols]
    if len(apps) != 1:
        raise AnalysisError("Table.__rshift__: append of a new named column not found")
    val = short(apps[0].ast.value.args[0])
    ok = False
    why = f"no raising guard `len({val}) != self._length` dominates the append of a new column"
    for t in cfg.nodes:
        if t.kind == "test" and cfg.dominates(t, apps[0]) and f"len({val})" in short(t.ast):
            tsucc = [s for s, lab in t.succ if lab == "T"]
            if tsucc and all(isinstance(s.ast, ast.Raise) for s in tsucc):
                bad = _guard_test_ok(t.ast, val)
                if bad is None:
                    ok = True
                else:
                    why = bad
    ctx.ob("a.length-guard", f, ">>dict", ok, "columns added by >> {name: values} are length-checked", apps[0].ast, message=why)


def _length_field(ctx) -> None:
    prog = ctx.prog
    storers = sorted({f.qualname for f, _, _ in _field_stores(prog, "_length")})
    ctx.ob("a.length-field", "package", "storers", storers == ["table.Table.__init__"], f"_length stored by {storers}",
           message=f"_length is stored by {storers}; only Table.__init__ may set it")
    f = prog.func("table.Table.__len__")
    rets = [short(s.value) for s in walk_stmts(f.body) if isinstance(s, ast.Return)]
    ctx.ob("a.length-field", f, "len", "self._length" in rets, f"__len__ returns {rets}", f.node,
           message=f"Table.__len__ returns {rets}, never the recorded row count")


def _writes(ctx) -> None:
    prog = ctx.prog
    f = prog.func("vector.Vector.__setitem__")
    d = Defs(f)
    cfg = cfg_of(f)
    stores = [s for s in walk_stmts(f.body) if isinstance(s, ast.Assign) and short(s.targets[0]) == "self._underlying"]
    problems = []
    if len(stores) != 1:
        raise AnalysisError("Vector.__setitem__: expected one store of self._underlying")
    v = d.resolve(stores[0].value)
    if not (isinstance(v, ast.Call) and short(v.func) == "tuple" and isinstance(v.args[0], ast.Name)):
        problems.append(f"the new storage is `{short(v)}`, not tuple(<work list>)")
    else:
        wl = v.args[0].id
        src = d.single(wl)
        if not (isinstance(src, ast.Call) and short(src.func) == "list" and len(src.args) == 1):
            problems.append(f"the work list `{wl}` is `{short(src) if src is not None else 'rebound'}`, not list(<old storage>)")
        else:
            base = src.args[0]
            from ..cfg import reaching_defs
            defs = reaching_defs(cfg, base.id, cfg.node_of(d.assigns[wl][0][1])) if isinstance(base, ast.Name) else [base]
            if not all(isinstance(x, ast.Attribute) and short(x) == "self._underlying" for x in defs):
                problems.append(f"the work list is copied from `{short(base)}` which is not (only) self._underlying")
        for n in walk_no_nested(f.node):
            if isinstance(n, ast.Call) and isinstance(n.func, ast.Attribute) and short(n.func.value) == wl \
                    and n.func.attr in MUTATING_BUILTIN:
                problems.append(f"`{short(n, 50)}` changes the length/order of the work list")
        for s in walk_stmts(f.body):
            tg = s.targets if isinstance(s, ast.Assign) else [s.target] if isinstance(s, ast.AugAssign) else s.targets if isinstance(s, ast.Delete) else []
            for t in tg:
                if isinstance(t, ast.Subscript) and short(t.value) == wl:
                    if isinstance(s, ast.Delete) or isinstance(t.slice, ast.Slice):
                        problems.append(f"`{short(s, 50)}` can change the length of the work list")
                    elif not isinstance(t.slice, ast.Name):
                        problems.append(f"`{short(s, 50)}` writes a computed position")
    ctx.ob("b.write-keeps-length", f, "setitem", not problems, "new storage = tuple(list(old)) with single-position assignments only",
           stores[0], message="; ".join(problems))
    f = prog.func("vector.Vector._promote")
    problems = []
    n = 0
    for s in walk_stmts(f.body):
        if isinstance(s, ast.Assign) and isinstance(s.value, ast.Call) and short(s.value.func) == "tuple" and s.value.args:
            g = s.value.args[0]
            n += 1
            if not (isinstance(g, ast.GeneratorExp) and len(g.generators) == 1 and not g.generators[0].ifs
                    and short(g.generators[0].iter) == "self._underlying"):
                problems.append(f"`{short(s, 80)}` does not rebuild from ALL elements of self._underlying: the column would change length")
    if n == 0:
        raise AnalysisError("_promote: no tuple rebuild found")
    ctx.ob("b.write-keeps-length", f, "promote", not problems, f"{n} conversions, each over all elements, unfiltered", f.node,
           message="; ".join(problems))


def _rows(ctx) -> None:
    class Px:
        def __init__(self):
            self.prog = ctx.prog

        def ob(self, rule, func, role, ok, what, node=None, message="", witness=""):
            return ctx.ob("c.uniform-rows", func, role, ok, what, node, message, witness)
    c07._rows(Px())


def _row_view(ctx) -> None:
    prog = ctx.prog
    f = prog.func("table.Row.__init__")
    tbl = f.params[1]
    snap = [s for s in f.body if isinstance(s, ast.Assign) and short(s.targets[0]) == "self._raw_cols"]
    all_stores = [s for s in walk_stmts(f.body) if isinstance(s, (ast.Assign, ast.AugAssign, ast.AnnAssign))
                  and any(isinstance(n, ast.Attribute) and n.attr == "_raw_cols" and isinstance(n.ctx, ast.Store)
                          for t in (s.targets if isinstance(s, ast.Assign) else [s.target]) for n in ast.walk(t))]
    ok = len(snap) == 1 and len(all_stores) == 1 and cshort(snap[0].value) == f"[_0._underlying for _0 in {tbl}._underlying]"
    ctx.ob("d.row-view", f, "snapshot", ok, "snapshot of all column tuples, in order, straight from the table", snap[0] if snap else f.node,
           message=f"Row takes its cells from `{short(snap[0].value, 70) if snap else '?'}`, not from the table's current column tuples "
                   f"[col._underlying for col in {tbl}._underlying]: a row view can disagree with the columns (stale or filtered snapshot)")
    idx = [s for s in f.body if isinstance(s, ast.Assign) and short(s.targets[0]) == "self._index"]
    ctx.ob("d.row-view", f, "index", len(idx) == 1 and short(idx[0].value) == f.params[2], "row index stored as given", idx[0] if idx else f.node,
           message="Row does not store the requested row index")
    # accessors
    acc = {
        "table.Row.__getitem__": "self._raw_cols[key][self._index]",
        "table.Row.__iter__": None,
        "table.Row._underlying": "tuple((_0[self._index] for _0 in self._raw_cols))",
        "table.Row.__getattr__": "self._raw_cols[$X][self._index]",
    }
    for q, want in acc.items():
        g = prog.func(q)
        if want is None:
            loops = [s for s in walk_stmts(g.body) if isinstance(s, ast.For)]
            ok = len(loops) == 1 and short(loops[0].iter) == "self._raw_cols" and any(
                isinstance(n, ast.Yield) and isinstance(n.value, ast.Subscript) and short(n.value.value) == loops[0].target.id
                for n in walk_no_nested(loops[0]))
            d = Defs(g)
            ys = [n for n in walk_no_nested(g.node) if isinstance(n, ast.Yield)]
            if ok and ys:
                ix = ys[0].value.slice
                ixv = d.resolve(ix)
                ok = short(ixv) == "self._index"
            ctx.ob("d.row-view", g, "accessor", ok, "iteration yields col[self._index] over all snapshot columns", g.node,
                   message="Row.__iter__ does not yield the cell of every column at the row index")
            continue
        rets = [cshort(s.value) for s in walk_stmts(g.body) if isinstance(s, ast.Return) and s.value is not None]
        if "$X" in want:
            rets = [_mask_index_name(s.value) for s in walk_stmts(g.body) if isinstance(s, ast.Return) and s.value is not None]
        ctx.ob("d.row-view", g, "accessor", want in rets, f"returns {want}", g.node,
               message=f"{q} returns {rets}; expected the snapshot cell `{want}`")
    # Table.__iter__ / __getitem__(int)
    g = prog.func("table.Table.__iter__")
    d = Defs(g)
    loops = [s for s in walk_stmts(g.body) if isinstance(s, ast.For)]
    ok = False
    if len(loops) == 1:
        r = loops[0].iter
        ok = isinstance(r, ast.Call) and short(r.func) == "range" and len(r.args) == 1 and short(d.resolve(r.args[0])) == "len(self)" \
            and any(isinstance(n, ast.Yield) and short(n.value).endswith(f".set_index({loops[0].target.id})") for n in walk_no_nested(loops[0]))
        ys = [n for n in walk_no_nested(loops[0]) if isinstance(n, ast.Yield) and isinstance(n.value, ast.Call)
              and isinstance(n.value.func, ast.Attribute) and isinstance(n.value.func.value, ast.Name)]
        rvn = ys[0].value.func.value.id if ys else "?"
        rv = [v for v, _, _ in d.assigns.get(rvn, []) if v is not None]
        ok = ok and bool(rv) and all(short(v) == "Row(self, 0)" for v in rv)
    ctx.ob("d.row-view", g, "iteration", ok, "iteration yields rows 0..len(self)-1 of this table", g.node,
           message="Table.__iter__ does not yield set_index(i) for i in range(len(self)) on a Row of this table")


def _mask_index_name(e: ast.AST) -> str:
    """self._raw_cols[<any local name>][self._index] -> self._raw_cols[$X][self._index]"""
    if isinstance(e, ast.Subscript) and isinstance(e.value, ast.Subscript) and short(e.value.value) == "self._raw_cols" \
            and isinstance(e.value.slice, ast.Name):
        return f"self._raw_cols[$X][{short(e.slice)}]"
    return short(e)


def _structural(ctx) -> None:
    prog = ctx.prog
    f = prog.func("table.Table.__rshift__")
    probs = []
    for s in walk_stmts(f.body):
        if isinstance(s, ast.Return) and isinstance(s.value, ast.Call) and short(s.value.func) in ("Vector", "Table") and s.value.args:
            a = s.value.args[0]
            if isinstance(a, ast.BinOp) and isinstance(a.op, ast.Add):
                if short(a.left) not in ("self.cols()", "tuple(self._underlying)"):
                    probs.append(f"`{short(s.value, 70)}` does not keep ALL existing columns first, in order")
            elif short(a) != "(other,)":
                probs.append(f"`{short(s.value, 70)}` is not existing columns + new columns")
    ctx.ob("e.structural-ops", f, ">>", not probs, ">> = existing columns + appended columns", f.node, message="; ".join(probs))
    f = prog.func("table.Table.__lshift__")
    probs = []
    rets = [s for s in walk_stmts(f.body) if isinstance(s, ast.Return)]
    for r in rets:
        c = r.value.args[0].args[0] if (isinstance(r.value, ast.Call) and r.value.args and isinstance(r.value.args[0], ast.Call)
                                        and r.value.args[0].args) else None
        if not (isinstance(c, ast.GeneratorExp) and cshort(c).startswith("(_0 << _1 for _0, _1 in zip(self.cols(), ") and isinstance(c.generators[0].iter, ast.Call)
                and short(c.generators[0].iter.func) == "zip" and short(c.generators[0].iter.args[0]) == "self.cols()"
                and kwarg(c.generators[0].iter, "strict") is not None and not c.generators[0].ifs):
            probs.append(f"`{short(r.value, 70)}` is not `x << y` over zip(self.cols(), <rows>, strict=True)")
    guards = [s for s in f.body if isinstance(s, ast.If) or isinstance(s, ast.If)]
    width = [s for s in walk_stmts(f.body) if isinstance(s, ast.If) and "len(self.cols()) !=" in short(s.test)
             and any(isinstance(b, ast.Raise) for b in s.body)]
    if len(width) < len(rets):
        probs.append("a << branch has no column-count guard")
    ctx.ob("e.structural-ops", f, "<<", not probs and bool(rets), "<< appends per column after a width check", f.node, message="; ".join(probs))
    # Vector.__lshift__ (the per-column append): a string is ONE cell, never a sequence of cells
    vl = prog.func("vector.Vector.__lshift__")
    other = vl.params[1]
    probs = []
    excl = f"not isinstance({other}, (str, bytes, bytearray))"
    for n in walk_no_nested(vl.node):
        if isinstance(n, ast.Call) and short(n) == f"isinstance({other}, Iterable)":
            par = prog.parent(n)
            if not (isinstance(par, ast.BoolOp) and isinstance(par.op, ast.And) and any(short(v) == excl for v in par.values)):
                probs.append(f"`{short(par, 60)}` treats every Iterable as a sequence of cells: a str/bytes cell would be split into characters")
    rets = [short(s.value, 120) for s in walk_stmts(vl.body) if isinstance(s, ast.Return)]
    if not any(f"({other},)" in r for r in rets):
        probs.append("a scalar (or string) is not appended as ONE element")
    for s_ in walk_stmts(vl.body):
        if isinstance(s_, ast.Return) and f"tuple({other})" in short(s_.value, 200):
            from ..sites import Resolver
            gs = Resolver(prog, vl).guards(s_)
            if not any(pol and excl in short(t) for t, pol in gs):
                probs.append(f"`{short(s_, 60)}` spreads `{other}` into cells without the str/bytes exclusion")
    ctx.ob("e.structural-ops", vl, "append-cell", not probs, "<< spreads only real sequences; strings and scalars are one cell", vl.node,
           message="Vector.__lshift__: " + "; ".join(probs))
    g = prog.func("table.Table.T")
    probs = []
    loops = [s for s in walk_stmts(g.body) if isinstance(s, ast.For)]
    if len(loops) != 1:
        raise AnalysisError("Table.T: row loop not found")
    lp = loops[0]
    d = Defs(g)
    r = lp.iter
    if not (isinstance(r, ast.Call) and short(r.func) == "range" and len(r.args) == 1 and short(d.resolve(r.args[0])) == "self._length"):
        probs.append(f"rows range over `{short(r)}`, not range(self._length)")
    cell = [n for n in walk_no_nested(lp) if isinstance(n, ast.GeneratorExp)]
    if not (cell and cshort(cell[0]) == f"(_0[{lp.target.id}] for _0 in self._underlying)"):
        probs.append(f"row i is built from `{short(cell[0]) if cell else '?'}`, not from col[i] for all columns")
    ctx.ob("e.structural-ops", g, ".T", not probs, "row i of .T = cells [i] of all columns", lp, message="; ".join(probs))
    ctx.ob("e.structural-ops", prog.func("table.Table.__getitem__"), "int-row", any(
        isinstance(s, ast.Return) and short(s.value) == "Row(self, key)" for s in walk_stmts(prog.func("table.Table.__getitem__").body)),
        "t[i] is Row(self, i)", message="Table.__getitem__(int) no longer returns Row(self, key)")


_T, _V = "table", "vector"
MUTANTS = [
    dict(id="setattr-guard-removed", module=_T, count=2, nth=1,
         old="				if self._underlying and len(value) != self._length:\n					raise ValueError(\n						f\"Cannot assign column '{attr}': length {len(value)} != table length {self._length}\"\n					)\n",
         new="", rules=["a.length-guard"]),
    dict(id="setattr-guard-rows-not-cols", module=_T, count=2, nth=0,
         old="				if self._underlying and len(value) != self._length:", new="				if len(self) and len(value) != self._length:",
         rules=["a.length-guard"], desc="zero-row tables with columns skip the check"),
    dict(id="init-guard-removed", module=_T,
         old="		for vec in initial:\n			if len(vec) != self._length:\n				raise SerifValueError(\n					f\"All columns of a Table must have the same length: \"\n					f\"expected {self._length}, got {len(vec)}\"\n				)\n",
         new="", rules=["a.length-guard"]),
    dict(id="init-guard-skips-first", module=_T, old="		for vec in initial:\n			if len(vec) != self._length:",
         new="		for vec in initial[:1]:\n			if len(vec) != self._length:", rules=["a.length-guard"]),
    dict(id="setitem-appends", module=_V, old="			old_val = data_list[idx]\n			data_list[idx] = new_val",
         new="			if idx >= len(data_list):\n				data_list.append(new_val)\n				continue\n			data_list[idx] = new_val", rules=["b.write-keeps-length"]),
    dict(id="promote-filters-none", module=_V,
         old="			new_tuple = tuple(datetime.combine(x, datetime.min.time()) if x is not None else None for x in self._underlying)",
         new="			new_tuple = tuple(datetime.combine(x, datetime.min.time()) for x in self._underlying if x is not None)",
         rules=["b.write-keeps-length"]),
    dict(id="row-slice-skips-columns", module=_T,
         old="			return Vector(tuple(x[key] for x in self._underlying), \n				dtype = self._dtype,\n				name=self._name",
         new="			return Vector(tuple(x[key] for x in self._underlying if len(x)), \n				dtype = self._dtype,\n				name=self._name",
         rules=["c.uniform-rows"]),
    dict(id="row-snapshot-filtered", module=_T, old="		self._raw_cols = [col._underlying for col in table._underlying]",
         new="		self._raw_cols = [col._underlying for col in table._underlying if col._name is not None]", rules=["d.row-view"]),
    dict(id="row-getitem-off-by-one", module=_T, old="			 return self._raw_cols[key][self._index]", new="			 return self._raw_cols[key][self._index - 1]",
         rules=["d.row-view"]),
    dict(id="iter-skips-last-row", module=_T, old="		for i in range(n):\n			# No object creation in loop - just index update",
         new="		for i in range(n - 1):\n			# No object creation in loop - just index update", rules=["d.row-view"]),
    dict(id="transpose-drops-column", module=_T, old="				row = Vector(tuple(col[row_idx] for col in self._underlying))",
         new="				row = Vector(tuple(col[row_idx] for col in self._underlying[:-1]))", rules=["e.structural-ops"]),
    dict(id="length-recomputed-on-replace", module=_T, old="		new_col = value.copy()\n",
         new="		new_col = value.copy()\n		object.__setattr__(self, '_length', len(new_col))\n", rules=["a.length-field"]),
    dict(id="twin-guard-any-form", module=_T, twin=True,
         old="		for vec in initial:\n			if len(vec) != self._length:\n				raise SerifValueError(\n					f\"All columns of a Table must have the same length: \"\n					f\"expected {self._length}, got {len(vec)}\"\n				)\n",
         new="		if any(len(c) != self._length for c in initial):\n			raise SerifValueError(\"All columns of a Table must have the same length\")\n"),
    dict(id="twin-guard-any", module=_T, twin=True, old="		for vec in initial:\n			if len(vec) != self._length:",
         new="		for column in initial:\n			if len(column) != self._length:",
         ),
]

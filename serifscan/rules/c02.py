"""C02 - tables stay rectangular; row views agree with column views.

Invariant: every column of a Table has len == table._length.  It can only be broken where a
column tuple is stored (construction, column replacement) or where a column changes length
(in-place writes, promotion).  The rules decide that every such site preserves it, and that the
row views index the very column tuples by one row index.
"""
from __future__ import annotations

import ast
from typing import List, Optional, Tuple

from ..astutil import Defs
from ..cfg import cfg_of
from ..core import AnalysisError, FuncInfo, attr_chain, cshort, kwarg, short, walk_no_nested, walk_stmts
from ..effects import MUTATING_BUILTIN
from .c01 import _field_stores
from . import c07


from ..symx import show


def run(ctx) -> None:
    ctx.rule("a.length-guard", "every store of a Table's column tuple is dominated by a guard that raises unless EVERY "
                               "incoming column has the table's length (construction: loop over all columns; replacement / "
                               ">> dict: len(value) != self._length, conjoined at most with `self._underlying`)", 2)
    ctx.rule("a.length-field", "_length is stored only by Table.__init__ (from the first column) and __len__ returns it", 2)
    ctx.rule("b.write-keeps-length", "Vector.__setitem__ materialises list(<old storage>) and only ever assigns single positions "
                                     "of it; _promote rebuilds from ALL elements (no filter): a column never changes length", 2)
    ctx.rule("c.uniform-rows", "row slices / masks / index vectors map the same key over all columns (as C07.e)", 2)
    ctx.rule("d.row-view", "Row snapshots [col._underlying for col in table._underlying] (unfiltered, in order, straight from the "
                           "table) and every Row accessor indexes that snapshot with the row index; iteration yields rows 0..len-1", 4)
    ctx.rule("e.structural-ops", ">> keeps the existing columns first and untouched, << appends per column over zip(strict) after "
                                 "a width check (a str cell is one cell), .T builds row i from column cells [i] of all columns", 3)
    ctx.section("guards", _guards, ctx)
    ctx.section("length-field", _length_field, ctx)
    ctx.section("writes", _writes, ctx)
    ctx.section("rows", _rows, ctx)
    ctx.section("row-view", _row_view, ctx)
    ctx.section("structural", _structural, ctx)
    ctx.not_decided += ["cell equality of >>, <<, .T.T results as values", "that a rejected update leaves the table unchanged (C08)"]


def _is_len_ne(t: ast.AST, var: str) -> bool:
    return isinstance(t, ast.Compare) and len(t.ops) == 1 and isinstance(t.ops[0], ast.NotEq) \
        and {short(t.left), short(t.comparators[0])} == {f"len({var})", "self._length"}


def _guard_test_ok(t: ast.AST, var: str) -> Optional[str]:
    """test must be `len(var) != self._length`, optionally `self._underlying and <that>`."""
    if _is_len_ne(t, var):
        return None
    if isinstance(t, ast.BoolOp) and isinstance(t.op, ast.And):
        rest = [v for v in t.values if not _is_len_ne(v, var)]
        if len(rest) == len(t.values):
            return f"`{short(t)}` does not compare len({var}) with the table length"
        bad = [v for v in rest if short(v) != "self._underlying"]
        if bad:
            return (f"the length check is skipped unless `{short(bad[0])}`: a wrong-length column would be stored when that is "
                    f"false (e.g. a table with columns but no rows)")
        return None
    return f"`{short(t)}` is not a length check of `{var}` against the table length"


def _guards(ctx) -> None:
    prog = ctx.prog
    # ---- construction: before the columns are stored, a raise is taken whenever SOME incoming column's length differs from the
    #      table length, and the table length is the first column's (symx: loop or any(...) form, helpers in line)
    from ..sites2 import interp_of, single_element
    from ..symx import NONE as _SN
    from ..symx import const as _const
    from ..symx import flatten_conds as _flat
    from ..symx import show as _show
    from ..symx import subterms as _sub
    f = prog.func("table.Table.__init__")
    it = interp_of(prog, f)
    S0 = ("param", f.params[0])
    sup = [e for e in it.events if e.kind == "call" and e.term[1][0] == "attr" and e.term[1][2] == "__init__"
           and e.term[1][1][0] == "call" and e.term[1][1][1] == ("name", "super")]
    if len(sup) != 1:
        raise AnalysisError("Table.__init__: super().__init__ call not found")
    problems = []
    LEN = ("attr", S0, "_length")
    lstores = [e for e in it.events if e.kind == "store" and e.term == LEN]
    incoming = None
    if len(lstores) != 1:
        problems.append(f"_length is stored {len(lstores)} times in Table.__init__")
    else:
        v = lstores[0].value
        # len(INCOMING[0]) if INCOMING else 0
        if v[0] == "ifexp" and v[3] == _const(0) and v[2][0] == "call" and v[2][1] == ("name", "len") and len(v[2][2]) == 1 \
                and v[2][2][0] == ("sub", v[1], _const(0)):
            incoming = v[1]
        else:
            problems.append(f"_length is `{_show(v, it)[:60]}`, expected len(initial[0]) if initial else 0")
    guard_ev = None
    if incoming is not None:
        lens = (LEN, lstores[0].value)
        for e in it.events:
            if e.kind != "raise" or e.seq > sup[0].seq:
                continue
            # loop form: for c in INCOMING: if len(c) != LENGTH: raise
            for L in e.loops:
                lp = it.loops[L]
                if lp.iter == incoming:
                    el = ("elem", incoming, L)
                    inside = _flat(e.conds[len(lp.conds):])
                    if len(inside) == 1 and not inside[0][1] and inside[0][0][0] == "cmp" and inside[0][0][1] == "Eq" \
                            and ("call", ("name", "len"), (el,), ()) in (inside[0][0][2], inside[0][0][3]) \
                            and any(x in lens for x in (inside[0][0][2], inside[0][0][3])):
                        guard_ev = e
            # any() form
            for t, pol in _flat(e.conds):
                if pol and t[0] == "call" and t[1] == ("name", "any") and len(t[2]) == 1 and t[2][0][0] == "obj":
                    se = single_element(it, t[2][0])
                    if se is not None and len(se[0]) == 1 and it.loops[se[0][0]].iter == incoming and not se[1]:
                        el = ("elem", incoming, se[0][0])
                        c = se[2]
                        if c[0] == "cmp" and c[1] == "NotEq" and ("call", ("name", "len"), (el,), ()) in (c[2], c[3]) \
                                and any(x in lens for x in (c[2], c[3])):
                            guard_ev = e
        if guard_ev is None:
            problems.append("no loop compares the length of every incoming column with the table length before the columns are "
                            "stored: the row count is taken from the first column only, so unequal columns give a ragged table")
        elif lstores[0].seq > guard_ev.seq and LEN in [x for c, _ in guard_ev.conds for x in _sub(c)]:
            problems.append("_length is computed after the guard that uses it")
        # the columns stored are the incoming ones (copied): the comprehension handed to super().__init__ ranges over INCOMING
        data = sup[0].term[2][0] if sup[0].term[2] else None
        from ..sites2 import comp_parts, leaves
        for d in leaves(data) if data is not None else []:
            cp = comp_parts(it, d)
            if cp is not None and len(cp[0]) == 1 and it.loops[cp[0][0]].iter != incoming:
                problems.append(f"the columns stored range over `{_show(it.loops[cp[0][0]].iter, it)[:50]}`, not over the incoming columns that "
                                f"were length-checked")
    ctx.ob("a.length-guard", f, "construction", not problems, "all incoming columns are compared with the table length before the store",
           guard_ev.node if guard_ev is not None else f.node, message="; ".join(problems))
    # ---- replacement callers and >> {name: values}: decided on the symx event log (helpers evaluated in line, guard clauses as
    #      path conditions), so it does not matter where the guard is written as long as it holds at the store
    from ..symx import Interp as SInterp
    from ..symx import elements, show, show_conds, subterms
    n_funcs = 0
    for g in list(prog.functions.values()):
        if isinstance(g.node, ast.Lambda) or g.cls != "Table" or g.parent is not None:
            continue
        if not any(isinstance(n, ast.Attribute) and n.attr == "_replace_column" for n in ast.walk(g.node)) or g.name == "_replace_column":
            continue
        it = SInterp(prog, g)
        S = ("param", g.params[0])
        sites = [e for e in it.events if e.kind == "call" and e.term[1] == ("attr", S, "_replace_column") and len(e.term[2]) >= 2]
        if not sites:
            continue
        n_funcs += 1
        bad = []
        for e in sites:
            why = _length_guard_problem(it, S, e.conds, e.term[2][1])
            if why:
                # ... or the guard lives in _replace_column itself, on every path to its storage swap
                rcf = prog.func("table.Table._replace_column")
                ri = SInterp(prog, rcf)
                RS = ("param", rcf.params[0])
                swaps = [x for x in ri.events if x.kind == "store" and x.term == ("attr", RS, "_underlying")]
                inner = [_length_guard_problem(ri, RS, x.conds, None) for x in swaps]
                if swaps and not any(inner):
                    why = None
                elif swaps and any(w and "skipped unless" in w for w in inner):
                    why = next(w for w in inner if w and "skipped unless" in w)
            if why:
                bad.append((why, e.node))
        ctx.ob("a.length-guard", g, "replace", not bad, f"{len(sites)} replacement(s) of a column are length-checked", bad[0][1] if bad else g.node,
               message=f"{g.qualname}: " + "; ".join(w for w, _ in bad))
    if n_funcs < 1:
        raise AnalysisError("no caller of Table._replace_column found")
    # ---- >> dict
    f = prog.func("table.Table.__rshift__")
    it = SInterp(prog, f)
    S = ("param", f.params[0])
    new_cols = None
    ret_node = f.node
    for e in it.events:
        if e.kind == "return" and e.depth == 0 and e.term[0] == "call" and e.term[1] == ("name", "Table") and e.term[2] \
                and e.term[2][0][0] == "bin" and e.term[2][0][1] == "Add":
            l, r = e.term[2][0][2], e.term[2][0][3]
            if l in (("call", ("name", "tuple"), (("attr", S, "_underlying"),), ()), ("attr", S, "_underlying")) \
                    and r[0] == "call" and r[1] == ("name", "tuple") and len(r[2]) == 1 and r[2][0][0] == "obj":
                new_cols, ret_node = r[2][0], e.node
    if new_cols is None:
        raise AnalysisError("Table.__rshift__: `return Table(tuple(self._underlying) + tuple(<new named columns>))` not found")
    els = elements(it, new_cols)
    if not els:
        raise AnalysisError("Table.__rshift__: append of a new named column not found")
    bad = []
    for e in els:
        v = e.value if e.kind == "elem" else (e.term[2][0] if e.kind == "call" and e.term[2] else None)
        why = _length_guard_problem(it, S, e.conds, v) if v is not None else "a new column is stored by index"
        if why:
            bad.append((why.replace("the replacement", "the append of a new column"), e.node))
    ctx.ob("a.length-guard", f, ">>dict", not bad, "columns added by >> {name: values} are length-checked", bad[0][1] if bad else ret_node,
           message="; ".join(w for w, _ in bad))


def _length_guard_problem(it, S, conds, val) -> Optional[str]:
    """None if the path condition guarantees len(val) == self._length (or that the table has no columns)."""
    from ..symx import show
    ln = ("call", ("name", "len"), (val,), ()) if val is not None else None
    tls = (("attr", S, "_length"), ("call", ("name", "len"), (S,), ()))       # the recorded row count / len(self), which returns it
    has_cols = ("attr", S, "_underlying")

    def pair(t):
        """the comparison is between the table's row count and the length of the incoming value (of SOME value when val is None)"""
        a_, b_ = t[2], t[3]
        for x, y in ((a_, b_), (b_, a_)):
            if x in tls and (y == ln if ln is not None else (y[0] == "call" and y[1] == ("name", "len") and len(y[2]) == 1 and y[2][0] != S)):
                return True
        return False

    def is_ne(t):
        return t[0] == "cmp" and t[1] == "NotEq" and pair(t)

    def is_eq(t):
        return t[0] == "cmp" and t[1] == "Eq" and pair(t)
    why = f"no raising guard `len({show(val, it)[:40] if val is not None else '<value>'}) != self._length` dominates the replacement"
    for t, pol in conds:
        if is_eq(t) and pol:
            return None
        if t[0] == "bool" and t[1] == "and" and not pol and any(is_ne(x) for x in t[2]):
            rest = [x for x in t[2] if not is_ne(x)]
            bad = [x for x in rest if x != has_cols]
            if not bad:
                return None
            why = (f"the length check is skipped unless `{show(bad[0], it)[:50]}`: a wrong-length column would be stored when that is "
                   f"false (e.g. a table with columns but no rows)")
        if t[0] == "bool" and t[1] == "or" and pol and any(is_eq(x) for x in t[2]):
            rest = [x for x in t[2] if not is_eq(x)]
            bad = [x for x in rest if x != ("un", "Not", has_cols)]
            if not bad:
                return None
    return why


def _length_field(ctx) -> None:
    from ..sites2 import interp_of
    prog = ctx.prog
    storers = sorted({f.qualname for f, _, _ in _field_stores(prog, "_length")})
    ctx.ob("a.length-field", "package", "storers", storers == ["table.Table.__init__"], f"_length stored by {storers}",
           message=f"_length is stored by {storers}; only Table.__init__ may set it")
    f = prog.func("table.Table.__len__")
    it = interp_of(prog, f)
    rets = [e.term for e in it.events if e.kind == "return" and e.depth == 0]
    want = ("attr", ("param", f.params[0]), "_length")
    ctx.ob("a.length-field", f, "len", want in rets, f"__len__ returns {[show(r, it)[:30] for r in rets]}", f.node,
           message=f"Table.__len__ returns {[show(r, it)[:30] for r in rets]}, never the recorded row count")


def _length_changers(it, obj) -> List[str]:
    """events that can change the length (or order) of list object `obj`"""
    out = []
    for e in it.events:
        if e.kind == "call" and e.term[1][0] == "attr" and e.term[1][1] == obj and e.term[1][2] in MUTATING_BUILTIN:
            out.append(f"`{show(e.term, it)[:50]}` changes the length/order of the work list")
        elif e.kind == "store" and e.term[0] == "sub" and e.term[1] == obj and e.term[2][0] == "slice":
            out.append(f"`{show(e.term, it)[:50]} = ...` (a slice store) can change the length of the work list")
        elif e.kind == "del" and e.term[0] == "sub" and e.term[1] == obj:
            out.append(f"`del {show(e.term, it)[:50]}` changes the length of the work list")
        elif e.kind == "store" and e.term == obj and False:
            pass
    return out


def _writes(ctx) -> None:
    """Vector.__setitem__ and _promote store only storage that has, by construction, one element per element of the old storage -
    on the symx store events (helpers in line)."""
    from ..sites2 import comp_parts, interp_of, strip_seq
    prog = ctx.prog
    f = prog.func("vector.Vector.__setitem__")
    it = interp_of(prog, f)
    SELF = ("param", f.params[0])
    und = ("attr", SELF, "_underlying")
    stores = [e for e in it.events if e.kind == "store" and e.term == und]
    if not stores:
        raise AnalysisError("Vector.__setitem__: no store of self._underlying found")
    problems = []
    for e in stores:
        v = strip_seq(it, e.value)
        if not (v[0] == "obj" and it.objs[v[1]].kind == "list" and isinstance(it.objs[v[1]].node, ast.Call)):
            problems.append(f"the new storage is `{show(e.value, it)[:60]}`, not tuple(<work list copied from the old storage>)")
            continue
        init = it.objs[v[1]].init
        if not (len(init) == 1 and strip_seq(it, init[0]) == und):
            problems.append(f"the work list is copied from `{show(init[0], it)[:40] if init else '?'}` which is not self._underlying")
        problems += _length_changers(it, v)
    ctx.ob("b.write-keeps-length", f, "setitem", not problems, "new storage = tuple(list(old)) with single-position assignments only",
           stores[0].node, message="; ".join(problems[:3]))
    f = prog.func("vector.Vector._promote")
    it = interp_of(prog, f)
    SELF = ("param", f.params[0])
    und = ("attr", SELF, "_underlying")
    problems = []
    n = 0
    for e in it.events:
        if not (e.kind == "store" and e.term == und):
            continue
        n += 1
        cp = comp_parts(it, e.value)
        if cp is None or len(cp[0]) != 1 or cp[1] or it.loops[cp[0][0]].iter not in (und, SELF):
            problems.append(f"`self._underlying = {show(e.value, it)[:70]}` does not rebuild from ALL elements of self._underlying: the "
                            f"column would change length")
    if n == 0:
        raise AnalysisError("_promote: no rebuild of the storage found")
    ctx.ob("b.write-keeps-length", f, "promote", not problems, f"{n} conversions, each over all elements, unfiltered", f.node,
           message="; ".join(problems[:2]))


def _rows(ctx) -> None:
    class Px:
        def __init__(self):
            self.prog = ctx.prog

        def ob(self, rule, func, role, ok, what, node=None, message="", witness=""):
            return ctx.ob("c.uniform-rows", func, role, ok, what, node, message, witness)
    c07._rows(Px())
    # an EMPTY selection must stay empty: the shared helper behind slicing (Vector.copy) selects its default by `is None`, never by
    # the truth value of the new values (an empty tuple is falsy) - shared with C07.b
    g = ctx.prog.func("vector.Vector.copy")
    probs = c07._falsy_uses(ctx.prog, g)
    ctx.ob("c.uniform-rows", g, "empty-selection", not probs, "copy(new_values) keeps an empty selection empty", g.node,
           message="; ".join(probs))


def _row_view(ctx) -> None:
    from ..symx import Interp as SInterp
    from ..symx import const, elements, show, subterms
    prog = ctx.prog
    # the shape of a row / table is (rows, columns): further dimensions come from a cell only when that cell IS a vector - decided
    # by its type, not by `hasattr(cell, 'shape')` (a cell of any other class may have a shape attribute of its own)
    for q_ in ("table.Row.shape", "table.Table.shape"):
        g_ = prog.functions.get(q_)
        if g_ is None:
            continue
        gi_ = SInterp(prog, g_)
        duck = []
        for e_ in gi_.events:
            for c_, _p in e_.conds:
                for x_ in subterms(c_):
                    if x_[0] == "call" and x_[1] in (("name", "hasattr"), ("name", "getattr")) and x_[2] and x_[2][0][0] in ("sub", "elem"):
                        duck.append(e_)
        ctx.ob("d.row-view", g_, "dimensions-by-type", not duck, "no dimension of the shape depends on hasattr / getattr of a cell",
               (duck[0].node if duck else g_.node),
               message=f"{q_} asks a CELL for a `shape` by attribute: a cell object that happens to have one (a frozen dataclass Tile(shape=(2, 3))) "
                       f"changes the table's shape to (rows, columns, 2, 3) - every t[i, name] and repr then take the wrong branch")
    # row[name] / t[i, name] read the cell of the column table[name] selects: the FIRST column of that stored name (a left join on
    # same-named keys, t >> Vector(name='x') repeat a name), then the accessor names (shared with C07.d)
    from .c07 import row_item_by_name_problems
    rg_, rprobs_ = row_item_by_name_problems(prog)
    ctx.ob("d.row-view", rg_, "item-by-name", not rprobs_, "row[name] reads the column table[name] selects (first of that stored name)", rg_.node,
           message="Row.__getitem__: " + "; ".join(rprobs_[:2]) + " - t[i][name] / t[i, name] and t[name][i] read different columns")
    f = prog.func("table.Row.__init__")
    it = SInterp(prog, f)
    S, T = ("param", f.params[0]), ("param", f.params[1])
    tcols = ("attr", T, "_underlying")
    stores = [e for e in it.events if e.kind == "store" and e.term[0] == "attr" and e.term[2] == "_raw_cols"]
    ok = False
    got = "?"
    if len(stores) == 1 and stores[0].term[1] == S and not stores[0].conds:
        v = stores[0].value
        got = show(v, it)[:80]
        if v[0] == "obj" and it.objs[v[1]].kind in ("listcomp", "list"):
            els = elements(it, v)
            if len(els) == 1 and not it.objs[v[1]].init:
                e = els[0]
                lps = [L for L in e.loops if L not in it.objs[v[1]].loops]
                ev = e.value if e.kind == "elem" else (e.term[2][0] if e.term[2] else None)
                ok = len(lps) == 1 and it.loops[lps[0]].iter == tcols and not e.conds[len(it.objs[v[1]].conds):] \
                    and ev == ("attr", ("elem", tcols, lps[0]), "_underlying")
    ctx.ob("d.row-view", f, "snapshot", ok, "snapshot of all column tuples, in order, straight from the table", stores[0].node if stores else f.node,
           message=f"Row takes its cells from `{got}` ({len(stores)} store(s) to _raw_cols), not once from the table's current column tuples "
                   f"[col._underlying for col in {f.params[1]}._underlying]: a row view can disagree with the columns (stale or filtered snapshot)")
    idx = [e for e in it.events if e.kind == "store" and e.term == ("attr", S, "_index")]
    ctx.ob("d.row-view", f, "index", len(idx) == 1 and idx[0].value == ("param", f.params[2]) and not idx[0].conds, "row index stored as given",
           idx[0].node if idx else f.node, message="Row does not store the requested row index")
    # accessors
    for q, kind in (("table.Row.__getitem__", "item"), ("table.Row.__iter__", "iter"), ("table.Row._underlying", "all"),
                    ("table.Row.__getattr__", "attr")):
        g = prog.func(q)
        gi = SInterp(prog, g)
        me = ("param", g.params[0])
        RC, IX = ("attr", me, "_raw_cols"), ("attr", me, "_index")
        if kind == "iter":
            ys = [e for e in gi.events if e.kind == "yield"]
            ok = len(ys) == 1 and len(ys[0].loops) == 1 and gi.loops[ys[0].loops[0]].iter == RC and not ys[0].conds \
                and ys[0].term == ("sub", ("elem", RC, ys[0].loops[0]), IX)
            ctx.ob("d.row-view", g, "accessor", ok, "iteration yields col[self._index] over all snapshot columns", g.node,
                   message="Row.__iter__ does not yield the cell of every column at the row index")
            continue
        rets = [e.term for e in gi.events if e.kind == "return" and e.depth == 0]
        if kind == "item":
            want_ok = any(t == ("sub", ("sub", RC, ("param", g.params[1])), IX) for t in rets)
            want = "self._raw_cols[key][self._index]"
        elif kind == "attr":
            want_ok = any(t[0] == "sub" and t[2] == IX and t[1][0] == "sub" and t[1][1] == RC for t in rets)
            want = "self._raw_cols[<column position>][self._index]"
        else:
            want_ok = False
            want = "tuple(col[self._index] for col in self._raw_cols)"
            for t in rets:
                if t[0] == "call" and t[1] == ("name", "tuple") and len(t[2]) == 1 and t[2][0][0] == "obj":
                    els = elements(gi, t[2][0])
                    if len(els) == 1:
                        e = els[0]
                        lps = [L for L in e.loops if L not in gi.objs[t[2][0][1]].loops]
                        if len(lps) == 1 and gi.loops[lps[0]].iter == RC and e.value == ("sub", ("elem", RC, lps[0]), IX) \
                                and not e.conds[len(gi.objs[t[2][0][1]].conds):]:
                            want_ok = True
        ctx.ob("d.row-view", g, "accessor", want_ok, f"returns {want}", g.node,
               message=f"{q} returns {[show(t, gi)[:60] for t in rets]}; expected the snapshot cell `{want}`")
    # Table.__iter__
    g = prog.func("table.Table.__iter__")
    gi = SInterp(prog, g)
    me = ("param", g.params[0])
    ys = [e for e in gi.events if e.kind == "yield"]
    ok = False
    if len(ys) == 1 and len(ys[0].loops) == 1 and not ys[0].conds[len(gi.loops[ys[0].loops[0]].conds):]:
        lp = gi.loops[ys[0].loops[0]]
        t = ys[0].term
        rng_ok = lp.range is not None and lp.range[0] == const(0) and lp.range[2] == const(1) \
            and lp.range[1] == ("call", ("name", "len"), (me,), ())
        row = None
        if rng_ok and t[0] == "call" and t[1][0] == "attr" and t[1][2] == "set_index" and t[2] == (("idx", lp.id),):
            # Row.set_index(i) must itself be: self._index = i; return self
            si = prog.func("table.Row.set_index")
            sit = SInterp(prog, si)
            SS = ("param", si.params[0])
            sets = [e for e in sit.events if e.kind == "store"]
            if len(sets) == 1 and sets[0].term == ("attr", SS, "_index") and sets[0].value == ("param", si.params[1]) and not sets[0].conds \
                    and [r_ for _, r_ in sit.returns] == [SS] and not sit.falls_through:
                row = t[1][1]
        elif rng_ok:
            # the same thing written in place: row._index = i; yield row
            st_ = [e for e in gi.events if e.kind == "store" and e.term == ("attr", t, "_index") and e.loops == ys[0].loops
                   and e.seq < ys[0].seq and e.conds == ys[0].conds]
            if st_ and st_[-1].value == ("idx", lp.id):
                row = t
        if row is not None:
            ok = row[0] == "call" and row[1] == ("name", "Row") and row[2][:1] == (me,)
    ctx.ob("d.row-view", g, "iteration", ok, "iteration yields rows 0..len(self)-1 of this table", g.node,
           message="Table.__iter__ does not yield set_index(i) for i in range(len(self)) on a Row of this table")


def _result_sites(prog, f, kinds):
    """construction sites of f whose value IS what f returns (on some path)"""
    from ..sites2 import all_sites2, interp_of, leaves
    it = interp_of(prog, f)
    returned = {t for e in it.events if e.kind == "return" and e.depth == 0 for t in leaves(e.term)}
    return [st for st in all_sites2(prog) if st.top is f and st.it is it and st.kind in kinds and st.call in returned]


def _deep_sub(it, t):
    from ..symx import deep_subterms
    return deep_subterms(it, t)


def _structural(ctx) -> None:
    """>> / << / .T / t[i] on the symx returns and construction sites (helpers in line)."""
    from ..sites2 import all_sites2, comp_parts, interp_of, leaves, strip_seq
    from ..symx import flatten_conds, subterms
    prog = ctx.prog
    f = prog.func("table.Table.__rshift__")
    it = interp_of(prog, f)
    SELF, OTHER = ("param", f.params[0]), ("param", f.params[1])
    existing = (("call", ("attr", SELF, "cols"), (), ()), ("attr", SELF, "_underlying"))
    probs = []
    n = 0
    for st in _result_sites(prog, f, ("Vector", "Table", "cls")):
        n += 1
        for d in leaves(st.data):
            d = strip_seq(it, d) if d[0] != "bin" else d
            if d[0] == "bin" and d[1] == "Add":
                if strip_seq(st.it, d[2]) not in existing:
                    probs.append(f"`{st.sh(st.call, 70)}` does not keep ALL existing columns first, in order")
            elif d == ("tuple", (OTHER,)):
                if not any(t == SELF and not pol for t, pol in flatten_conds(st.ev.conds)):
                    probs.append(f"`{st.sh(st.call, 70)}` drops the existing columns of a non-empty table")
            else:
                probs.append(f"`{st.sh(st.call, 70)}` is not existing columns + new columns")
    if not n:
        raise AnalysisError("Table.__rshift__: no result construction found")
    ctx.ob("e.structural-ops", f, ">>", not probs, ">> = existing columns + appended columns", f.node, message="; ".join(probs[:2]))
    f = prog.func("table.Table.__lshift__")
    it = interp_of(prog, f)
    SELF, OTHER = ("param", f.params[0]), ("param", f.params[1])
    cols_s = ("call", ("attr", SELF, "cols"), (), ())
    probs = []
    n = 0
    for st in _result_sites(prog, f, ("Vector", "Table", "cls")):
        n += 1
        for d in leaves(st.data):
            cp = comp_parts(st.it, d)
            if cp is None or len(cp[0]) != 1:
                probs.append(f"`{st.sh(st.call, 70)}` is not one `col << cells` per column")
                continue
            (L,), extra, v, ev = cp
            lp = st.it.loops[L]
            doms = tuple(lp.domain[1]) if lp.domain is not None and lp.domain[0] == "tuple" else ()
            if len(doms) != 2 or strip_seq(st.it, doms[0]) not in (cols_s, ("attr", SELF, "_underlying")) or extra:
                probs.append(f"`{st.sh(st.call, 70)}` is not `x << y` over zip(self.cols(), <rows>)")
                continue
            x, y = ("elem", doms[0], L), ("elem", doms[1], L)
            if v != ("bin", "LShift", x, y):
                probs.append(f"per-column append is `{show(v, st.it)[:50]}`, expected `col << cells`")
            ln = lambda c: ("call", ("name", "len"), (c,), ())
            fc = flatten_conds(ev.conds)
            if not any(pol and t[0] == "cmp" and t[1] == "Eq" and {t[2], t[3]} == {ln(doms[0]), ln(doms[1])} for t, pol in fc):
                probs.append("a << branch has no column-count guard")
    ctx.ob("e.structural-ops", f, "<<", not probs and n > 0, "<< appends per column after a width check", f.node, message="; ".join(probs[:2]))
    # table << x / x << table: a string (one cell) and a mapping (no column order) are not rows of cells - zip() would spread the
    # characters / the KEYS over the columns.  For `other` of either kind no result is reachable (three-valued evaluation)
    KIND_NAMES = {
        "str": ({"str", "bytes", "Sized", "Iterable", "Sequence", "Collection", "Container", "Reversible", "Hashable"},
                {"Vector", "Table", "Row", "list", "tuple", "dict", "Mapping", "set", "range", "int", "float", "Iterator", "bytearray"}),
        "Iterator": ({"Iterator", "Iterable", "Generator"},
                     {"Vector", "Table", "Row", "list", "tuple", "str", "bytes", "bytearray", "complex", "Enum", "set", "range", "int", "float", "Mapping", "dict",
                      "Sized", "Sequence", "Collection"}),
        "Mapping": ({"Mapping", "Sized", "Iterable", "Collection", "Container"},          # (not "dict": a mapping need not be one)
                    {"Vector", "Table", "Row", "list", "tuple", "str", "bytes", "bytearray", "complex", "Enum", "set", "range", "int", "float", "Iterator", "Sequence"}),
    }

    def kind_truth(c, O, kind):
        from ..tv import tv as _tv
        yes, no = KIND_NAMES[kind]

        def atom(x):
            if x[0] == "call" and x[1] == ("name", "isinstance") and len(x[2]) == 2 and x[2][0] == O:
                names = {y[1] for y in subterms(x[2][1]) if y[0] == "name"}
                if names & yes:
                    return True
                return False if names and names <= no else None
            return None
        return _tv(c, atom)
    for q in ("table.Table.__lshift__", "table.Table.__rlshift__"):
        g = prog.functions.get(q)
        if g is None:
            continue
        gi = interp_of(prog, g)
        O = ("param", g.params[1])
        reach = []
        for kind in ("str", "Mapping"):
            for e in gi.events:
                if e.kind == "return" and e.depth == 0 and not any(kind_truth(t, O, kind) is (not pol) for t, pol in flatten_conds(e.conds)):
                    reach.append((kind, e))
        ctx.ob("e.structural-ops", g, "row-of-cells", not reach, "a string or a mapping is refused as a row (no result reachable for either)",
               (reach[0][1].node if reach else g.node),
               message=f"{q}: a result is reachable for a {' / '.join(sorted({k for k, _ in reach}))} operand (line "
                       f"{getattr(reach[0][1].node, 'lineno', 0) if reach else 0}): t << {{'b': 'B', 'a': 'A'}} appends the row ('b', 'a') - the "
                       f"mapping's KEYS - and t << 'pq' spreads the characters over the columns")
    # table << generator: a one-shot iterator of items has no len() - it is materialised before its length is compared with the column
    # count (as generator << table does); evaluated for an Iterator operand: no len(other) of the raw operand is reachable
    for q in ("table.Table.__lshift__",):
        g = prog.functions.get(q)
        if g is None:
            continue
        gi = interp_of(prog, g)
        O = ("param", g.params[1])

        def res_it(t):
            while t[0] == "ifexp":
                r = kind_truth(t[1], O, "Iterator")
                if r is None:
                    return None
                t = t[2] if r else t[3]
            return t
        raw_len = []
        for e in gi.events:
            if any(kind_truth(t, O, "Iterator") is (not pol) for t, pol in flatten_conds(e.conds)):
                continue
            for t in [e.term, e.value] + [c for c, _ in e.conds]:
                if t is None:
                    continue
                for x in subterms(t):
                    if x[0] == "call" and x[1] == ("name", "len") and len(x[2]) == 1 and res_it(x[2][0]) == O:
                        raw_len.append(e)
        ctx.ob("e.structural-ops", g, "iterator-row", not raw_len, "no len() of the raw operand is reached when it is a one-shot iterator",
               (raw_len[0].node if raw_len else g.node),
               message=f"{q}: len(other) is taken of an operand that may be a generator (line {getattr(raw_len[0].node, 'lineno', 0) if raw_len else 0}): "
                       f"t << (x for x in row) raises a bare TypeError while generator << table works")
    # >> with a mapping {name: values}: the named columns are added (iterating the mapping would store its KEYS as one column) - every
    # result reachable for a Mapping operand lies behind a test that recognises a mapping (a test for dict alone misses the others)
    for q in ("vector.Vector.__rshift__", "vector.Vector.__rrshift__", "table.Table.__rshift__"):
        g = prog.functions.get(q)
        if g is None:
            continue
        gi = interp_of(prog, g)
        O = ("param", g.params[1])
        is_map_test = lambda c: c[0] == "call" and c[1] == ("name", "isinstance") and len(c[2]) == 2 and c[2][0] == O \
            and any(y == ("name", "Mapping") for y in subterms(c[2][1]))
        unrecognised = []
        for e in gi.events:
            if e.kind != "return" or e.depth != 0:
                continue
            fc = flatten_conds(e.conds)
            if any(kind_truth(t, O, "Mapping") is (not pol) for t, pol in fc):
                continue
            if not any(pol and is_map_test(t) for t, pol in fc):
                unrecognised.append(e)
        ctx.ob("e.structural-ops", g, "mapping-columns", not unrecognised, "every result reachable for a mapping operand is the named-columns form",
               (unrecognised[0].node if unrecognised else g.node),
               message=f"{q}: a result (line {getattr(unrecognised[0].node, 'lineno', 0) if unrecognised else 0}) is reachable for a mapping operand "
                       f"without the mapping being recognised: vector >> {{'p': [..]}} / table >> MappingProxyType(..) store the KEYS as one "
                       f"column and drop the values")
    # ... and what the mapping gives for ONE new column is a sequence of cells: a string, a number or (again) a mapping as the values
    # of a column is refused - no `Vector(values)` is reachable for it (iterated, a string gives its characters, a mapping its KEYS)
    for q in ("table.Table.__rshift__",):
        g = prog.functions.get(q)
        if g is None:
            continue
        gi = interp_of(prog, g)
        O = ("param", g.params[1])
        n_conv, taken_apart = 0, []
        for e in gi.events:
            if e.kind == "call" and e.term[1] == ("name", "Vector") and len(e.term[2]) == 1 and e.term[2][0][0] == "val" and e.term[2][0][1] == O:
                n_conv += 1
                for kind in ("str", "Mapping"):
                    if not any(kind_truth(t, e.term[2][0], kind) is (not pol) for t, pol in flatten_conds(e.conds)):
                        taken_apart.append((kind, e))
        ctx.ob("e.structural-ops", g, "mapping-column-values", n_conv >= 1 and not taken_apart,
               f"{n_conv} conversion(s) of a mapping's value to a column, none reachable for a string or a mapping", (taken_apart[0][1].node if taken_apart else g.node),
               message=f"{q}: `Vector(values)` (line {getattr(taken_apart[0][1].node, 'lineno', 0) if taken_apart else 0}) is reachable for a "
                       f"{' / '.join(sorted({k_ for k_, _ in taken_apart}))} given as the values of a new column: t >> {{'c': {{'p': 1, 'q': 2}}}} "
                       f"appends a column holding 'p', 'q' - the inner mapping's KEYS")
    # Vector.__lshift__ (the per-column append): a string is ONE cell, never a sequence of cells
    vl = prog.func("vector.Vector.__lshift__")
    it = interp_of(prog, vl)
    SELF, OTHER = ("param", vl.params[0]), ("param", vl.params[1])
    other = vl.params[1]
    probs = []
    one_cell = False
    n = 0

    def excluded(conds) -> bool:
        for t, pol in flatten_conds(conds):
            if (not pol) and t[0] == "call" and t[1] == ("name", "isinstance") and len(t[2]) == 2 and t[2][0] == OTHER:
                names = {x[1] for x in subterms(t[2][1]) if x[0] == "name"}
                if {"str", "bytes"} <= names:
                    return True
        return False
    for st in _result_sites(prog, vl, ("Vector", "cls", "copy")):
        n += 1
        for d in leaves(st.data):
            parts = []
            stack = [strip_seq(st.it, d)]
            while stack:
                t = stack.pop()
                if t[0] == "bin" and t[1] == "Add":
                    stack += [t[3], t[2]]
                else:
                    parts.append(t)
            if not parts or strip_seq(st.it, parts[0]) != ("attr", SELF, "_underlying"):
                probs.append(f"`{st.sh(st.call, 60)}` does not keep the existing elements first")
            for t in parts[1:]:
                if t == ("tuple", (OTHER,)):
                    one_cell = True
                elif strip_seq(st.it, t) == OTHER and t != OTHER or (t[0] == "obj" and any(
                        st.it.loops[L].iter == OTHER for e in st.it.events if e.kind == "elem" and e.term == t for L in e.loops)):
                    if not excluded(st.ev.conds):
                        probs.append(f"`{st.sh(st.call, 60)}` spreads `{other}` into cells without the str/bytes exclusion: a str/bytes "
                                     f"cell would be split into characters")
    # ... stated from the operand's side: for `other` a str / bytes (sized, iterable, possibly EMPTY), every result that is not
    # certainly excluded appends (other,) - one cell.  Three-valued evaluation of each result's path condition under that operand:
    # a fast path `if isinstance(other, Sized) and len(other) == 0: return <self's cells>` is reachable for '' and drops the cell
    STR_TRUE = {"str", "bytes", "Sized", "Iterable", "Sequence", "Collection", "Container", "Reversible", "Hashable", "object"}
    STR_FALSE = {"Vector", "Table", "Row", "list", "tuple", "dict", "Mapping", "set", "frozenset", "range", "int", "float", "bool", "complex",
                 "Iterator", "Generator", "slice", "date", "datetime", "bytearray", "complex", "Enum", "MutableSequence"}

    def tv_str(c):
        from ..tv import tv as _tv

        def atom(x):
            if x[0] == "call" and x[1] == ("name", "isinstance") and len(x[2]) == 2 and x[2][0] == OTHER:
                names = {y[1] for y in subterms(x[2][1]) if y[0] == "name"}
                if names & STR_TRUE:
                    return True
                return False if names and names <= STR_FALSE else None
            return None
        return _tv(c, atom)
    for st in _result_sites(prog, vl, ("Vector", "cls", "copy")):
        if any(tv_str(t) is (not pol) for t, pol in flatten_conds(st.ev.conds)):
            continue                               # not reached by a string operand
        for d in leaves(st.data):
            if not any(x == ("tuple", (OTHER,)) for x in _deep_sub(st.it, d)):
                probs.append(f"`{st.sh(st.call, 60)}` (line {getattr(st.node, 'lineno', 0)}) is reachable for a str / bytes operand - '' is sized and "
                             f"empty - and does not append it as one cell: t << [3, 'cy', ''] leaves that column one cell short")
    if not n:
        raise AnalysisError("Vector.__lshift__: no result construction found")
    # row << table: a table on the right is handed to Table.__rlshift__ (Python tries it by itself only for a plain Vector on the left):
    # no result of Vector.__lshift__ that concatenates other's storage is reachable for a two-dimensional operand
    und_o = ("attr", OTHER, "_underlying")
    two_d = lambda c: c[0] == "cmp" and c[1] == "Eq" and ("const", "int", 2) in (c[2], c[3]) and ("call", ("attr", OTHER, "ndims"), (), ()) in (c[2], c[3])
    flat = []
    for st in _result_sites(prog, vl, ("Vector", "cls", "copy")):
        if any(x == und_o for d in leaves(st.data) for x in _deep_sub(st.it, d)):
            excluded_2d = any((not pol) and any(two_d(x) for x in subterms(t)) for t, pol in st.ev.conds)
            if not excluded_2d:
                flat.append(st)
    handed = [e for e in it.events if e.kind == "return" and e.term[0] == "call" and e.term[1] == ("attr", OTHER, "__rlshift__")]
    ctx.ob("e.structural-ops", vl, "table-operand-handed-over", not flat and bool(handed),
           "vector << table is handed to Table.__rlshift__", (flat[0].node if flat else vl.node),
           message="Vector.__lshift__ concatenates the storage of a Table operand - its column vectors: Vector([0, 0]) << t (any typed vector or Row "
                   "on the left) is the flat vector [0, 0, <column a>, <column b>] instead of t with one more row on top")
    if not one_cell:
        probs.append("a scalar (or string) is not appended as ONE element")
    ctx.ob("e.structural-ops", vl, "append-cell", not probs, "<< spreads only real sequences; strings and scalars are one cell", vl.node,
           message="Vector.__lshift__: " + "; ".join(probs[:2]))
    # the stacking / appending operators never refuse an operand for its dtype: columns of different kinds make a table, appended
    # values of another kind are typed by inference (a left-over 'typesafe' guard refused Vector([1, 2]) >> Vector(['a', 'b']))
    from ..symx import show as _show
    for q in ("vector.Vector.__rshift__", "vector.Vector.__lshift__"):
        h = prog.func(q)
        hi = interp_of(prog, h)
        bad = []
        for e in hi.events:
            if e.kind == "raise":
                for t, pol in flatten_conds(e.conds):
                    if any(x[0] == "attr" and x[2] in ("kind", "nullable") for x in subterms(t)):
                        bad.append(f"`raise {_show(e.term, hi)[:50]}` under a condition on the operands' dtypes (`{_show(t, hi)[:60]}`)")
                        break
        ctx.ob("e.structural-ops", h, "no-kind-refusal", not bad, f"{q.split('.')[-1]} refuses no operand for its dtype", h.node,
               message=f"{q}: " + "; ".join(bad[:2]) + ": two non-nullable vectors of different kinds cannot be stacked / concatenated although "
                       "the same values are accepted once a None occurs or the operand is a list")
    # a vector given as DATA - Vector(v), Table({'a': v}) - is read element by element: Vector.__new__ never takes its truth value
    # (Vector.__bool__ raises). Decided by evaluating every truth-tested data term for `initial` = a one-dimensional vector.
    vn = prog.func("vector.Vector.__new__")
    vi = interp_of(prog, vn)
    INIT = ("param", vn.params[1])

    def vtruth(t):
        """three-valued truth of a condition for `initial` = a one-dimensional vector (serifscan/tv.py: and / or / not / conditional
        expressions / constants - a flag computed by an if-elif chain is a nested conditional of constants)"""
        from ..tv import tv as _tv

        def atom(x):
            if x[0] == "call" and x[1] == ("name", "isinstance") and len(x[2]) == 2 and x[2][0] == INIT:
                names = {y[1] for y in subterms(x[2][1]) if y[0] == "name"}
                return "Vector" in names
            if x[0] == "cmp" and x[1] in ("LtE", "Lt", "Eq") and x[2] == ("call", ("attr", INIT, "ndims"), (), ()) and x[3][0] == "const":
                return {"LtE": 1 <= x[3][2], "Lt": 1 < x[3][2], "Eq": 1 == x[3][2]}[x[1]]
            return None
        return _tv(t, atom)

    def vval(t):
        if t == INIT:
            return "V"
        if t[0] == "ifexp":
            c = vtruth(t[1])
            return vval(t[2]) if c is True else (vval(t[3]) if c is False else ("V" if "V" in (vval(t[2]), vval(t[3])) else None))
        if t[0] == "call" and t[1] in (("name", "tuple"), ("name", "list")):
            return "T"
        return None
    truth_of_vector = []
    for e in vi.events:
        for c, pol in e.conds:
            stack = [c]
            while stack:
                x = stack.pop()
                if x[0] == "bool":
                    stack += list(x[2])
                elif x[0] == "un" and x[1] == "Not":
                    stack.append(x[2])
                elif vval(x) == "V":
                    truth_of_vector.append(getattr(e.node, "lineno", "?"))
    ctx.ob("e.structural-ops", vn, "vector-as-data", not truth_of_vector, "the data's truth value is never taken while it may be a vector", vn.node,
           message=f"Vector.__new__ takes the truth value of its data while it can still be a Vector (first use near line "
                   f"{truth_of_vector[0] if truth_of_vector else '?'}): Vector(v) and Table({{'a': v}}) raise TypeError 'cannot be used in a boolean "
                   f"context'")
    # t[i]: the i-th row exists exactly for -len(t) <= i < len(t) (shared with C07.d): the row view and the columns agree on which
    # positions exist
    from .c07 import row_bounds_exact
    rb = row_bounds_exact(prog)
    if rb is None:
        raise AnalysisError("Table.__getitem__: the row-bounds condition is outside the integer-comparison fragment")
    tgi = prog.func("table.Table.__getitem__")
    ctx.ob("e.structural-ops", tgi, "int-row-bounds", not rb, "t[i] raises IndexError exactly outside [-len(t), len(t))", tgi.node,
           message="Table.__getitem__(int): " + "; ".join(rb[:3]) + " - the row view and the columns disagree on which positions exist")
    # other >> table (reflected): a table on the right contributes its COLUMNS, it is not one column
    rr = prog.func("vector.Vector.__rrshift__")
    ri = interp_of(prog, rr)
    RS = ("param", rr.params[0])
    spliced = 0
    whole = []
    for st in _result_sites(prog, rr, ("Vector", "Table", "cls")):
        for d in leaves(st.data):
            d_ = d
            has_cols = any(x == ("call", ("attr", RS, "cols"), (), ()) for x in subterms(d_))
            two_d = any(x[0] == "cmp" and x[1] == "Eq" and ("const", "int", 2) in (x[2], x[3])
                        and ("call", ("attr", RS, "ndims"), (), ()) in (x[2], x[3]) for x in subterms(d_)) or \
                any(t[0] == "cmp" and ("call", ("attr", RS, "ndims"), (), ()) in (t[2], t[3]) for t, pol in flatten_conds(st.ev.conds))
            if has_cols and two_d:
                spliced += 1
            else:
                whole.append(st)
    ctx.ob("e.structural-ops", rr, "rrshift-table", spliced >= 1 and not whole, "other >> table splices the table's columns", rr.node,
           message="Vector.__rrshift__ (which Table inherits) places self as ONE column of the result: [7, 8, 9] >> table nests the whole table "
                   "in a single column and loses its column names (Vector([7, 8, 9]) >> table splices the columns)")
    g = prog.func("table.Table.T")
    it = interp_of(prog, g)
    SELF = ("param", g.params[0])
    probs = []
    n = 0
    for st in _result_sites(prog, g, ("Table",)):
        n += 1
        for d in leaves(st.data):
            cp = comp_parts(st.it, d)
            if cp is None or len(cp[0]) != 1 or cp[1]:
                probs.append(f"`{st.sh(st.call, 60)}`: not one row per row index")
                continue
            (L,), extra, v, ev = cp
            lp = st.it.loops[L]
            if lp.range is None or lp.range[0] != ("const", "int", 0) or lp.range[1] != ("attr", SELF, "_length") or lp.range[2] != ("const", "int", 1):
                probs.append(f"rows range over `{show(lp.iter, st.it)[:40]}`, not range(self._length)")
                continue
            cells = [a for a in (v[2] if v[0] == "call" else ()) ]
            inner = comp_parts(st.it, cells[0]) if cells else None
            if inner is None or len(inner[0]) != 1 or inner[1]:
                probs.append(f"row i is built from `{show(v, st.it)[:50]}`, not from col[i] for all columns")
                continue
            (L2,), _, cv, _ = inner
            src = st.it.loops[L2].iter
            if strip_seq(st.it, src) not in (("attr", SELF, "_underlying"), ("call", ("attr", SELF, "cols"), (), ())) \
                    or cv != ("sub", ("elem", src, L2), ("idx", L)):
                probs.append(f"row i is built from `{show(cv, st.it)[:50]}`, not from col[i] for all columns")
    if not n:
        raise AnalysisError("Table.T: no transposed Table construction found")
    # every result of .T is built in this call: a remembered transposed table is a second handle on one object - a write through
    # an earlier result would show in the next t.T (and in t.T.T)
    from ..sites2 import leaves as _lv
    built = {st.call for st in all_sites2(prog) if st.top is g and st.it is it}
    for e in it.events:
        if e.kind == "return" and e.depth == 0:
            for lf in _lv(e.term):
                if lf not in built:
                    probs.append(f"`return {show(lf, it)[:40]}` (line {getattr(e.node, 'lineno', '?')}) hands out an object that was not built in "
                                 f"this call: a transposed table kept from an earlier call is shared with whoever received it then")
    for e in it.events:
        if e.kind == "store" and e.term[0] == "attr" and e.term[1] == SELF and e.term[2] not in ("_fp", "_fp_powers"):
            probs.append(f"Table.T stores `{show(e.term, it)[:30]}` on the table: a read-only operation keeps its result on its operand")
    ctx.ob("e.structural-ops", g, ".T", not probs, "row i of .T = cells [i] of all columns", g.node, message="; ".join(probs[:2]))
    gi = prog.func("table.Table.__getitem__")
    it = interp_of(prog, gi)
    KEY = ("param", gi.params[1])
    keys = (KEY, ("call", ("attr", ("param", gi.params[0]), "_check_duplicate"), (KEY,), ()))
    ctx.ob("e.structural-ops", gi, "int-row", any(e.kind == "return" and e.term[0] == "call" and e.term[1] == ("name", "Row")
                                                  and len(e.term[2]) == 2 and e.term[2][0] == ("param", gi.params[0]) and e.term[2][1] in keys
                                                  for e in it.events),
           "t[i] is Row(self, i)", message="Table.__getitem__(int) no longer returns Row(self, key)")


_T, _V = "table", "vector"
MUTANTS = [
    dict(id="inner-mapping-keys-as-column", module="table",
         old="				elif isinstance(values, Iterable) and not isinstance(values, (str, bytes, bytearray, int, float, complex, Enum, Mapping)):",
         new="				elif isinstance(values, Iterable) and not isinstance(values, (str, bytes, bytearray, int, float, complex, Enum)):",
         rules=["e.structural-ops"], desc="reverts fix c8aa601"),
    dict(id="rshift-only-dicts-are-mappings", module="table", old="		if isinstance(other, Mapping):\n			# Convert dict to named Vectors",
         new="		if isinstance(other, dict):\n			# Convert dict to named Vectors", rules=["e.structural-ops"], desc="reverts fix 0894df3 (table)"),
    dict(id="vector-rshift-mapping-keys", module="vector", old="		if isinstance(other, Mapping):\n			# {name: values, ...}: named columns after this one",
         new="		if False:\n			# {name: values, ...}: named columns after this one", rules=["e.structural-ops"], desc="reverts fix 0894df3 (vector)"),
    dict(id="table-lshift-generator-len", module="table", old="		if isinstance(other, Iterator):\n			# (a generator of items has no len()",
         new="		if False:\n			# (a generator of items has no len()", rules=["e.structural-ops"], desc="reverts fix 7b014f0"),
    dict(id="row-shape-by-attribute", module="table", old="		if isinstance(first_val, Vector):\n			return (my_len,) + first_val.shape",
         new="		if hasattr(first_val, 'shape'):\n			return (my_len,) + first_val.shape", rules=["d.row-view"], desc="reverts fix d1a38eb"),
    dict(id="lshift-row-may-be-a-mapping", module="table",
         old="		if not isinstance(other, Iterable) or isinstance(other, (str, bytes, bytearray, int, float, complex, Enum, Mapping)):\n			# (a string is one cell",
         new="		if False:\n			# (a string is one cell", rules=["e.structural-ops"], desc="reverts fix 7ae68a8"),
    dict(id="rlshift-row-may-be-a-mapping", module="table",
         old="		if not isinstance(other, Iterable) or isinstance(other, (str, bytes, bytearray, int, float, complex, Enum, Mapping)):\n			raise SerifTypeError(\"Cannot prepend",
         new="		if not isinstance(other, Iterable) or isinstance(other, (str, bytes, bytearray, int, float, complex, Enum)):\n			raise SerifTypeError(\"Cannot prepend",
         rules=["e.structural-ops"], desc="reverts fix 7ae68a8 for dict << table"),
    dict(id="lshift-table-operand-concatenated", module="vector", old="		if isinstance(other, Vector) and other.ndims() == 2 and self.ndims() != 2:",
         new="		if False:", rules=["e.structural-ops"], desc="reverts fix 41fe18d"),
    dict(id="vector-data-truth-tested", module="vector", old="		elif isinstance(initial, Vector) and initial.ndims() <= 1:", new="		elif False:",
         rules=["e.structural-ops"], desc="reverts fix ab17af0: Table({'a': v}) raises TypeError"),
    dict(id="rshift-typesafe-guard-back", module="vector",
         old="		if isinstance(other, Vector):\n			# (no dtype: two columns of unequal length",
         new="		if isinstance(other, Vector):\n			if self._dtype is not None and other.schema() is not None and not self._dtype.nullable and not other.schema().nullable and self._dtype.kind != other.schema().kind:\n				raise SerifTypeError(\"Cannot concatenate two typesafe Vectors of different types\")\n			# (no dtype: two columns of unequal length",
         rules=["e.structural-ops"], desc="reverts fix fa13777"),
    dict(id="rrshift-table-as-one-column", module="vector", old="		rest = self.cols() if self.ndims() == 2 else (self,)", new="		rest = (self,)",
         rules=["e.structural-ops"], desc="reverts fix 8d6592f"),
    dict(id="setattr-guard-removed", module=_T, count=2, nth=1,
         old="				if self._underlying and len(value) != self._length:\n					raise ValueError(\n						f\"Cannot assign column '{attr}': length {len(value)} != table length {self._length}\"\n					)\n",
         new="", rules=["a.length-guard"]),
    dict(id="setattr-guard-rows-not-cols", module=_T, count=2, nth=0,
         old="				if self._underlying and len(value) != self._length:", new="				if len(self) and len(value) != self._length:",
         rules=["a.length-guard"], desc="zero-row tables with columns skip the check"),
    dict(id="init-guard-removed", module=_T,
         old="		for vec in initial:\n			if len(vec) != self._length:\n				raise SerifValueError(\n					f\"All columns of a Table must have the same length: \"\n					f\"expected {self._length}, got {len(vec)}\"\n				)\n",
         new="", rules=["a.length-guard"]),
    dict(id="init-guard-skips-first", module=_T, old="		for vec in initial:\n			if len(vec) != self._length:",
         new="		for vec in initial[:1]:\n			if len(vec) != self._length:", rules=["a.length-guard"]),
    dict(id="setitem-appends", module=_V, old="			old_val = data_list[idx]\n			data_list[idx] = new_val",
         new="			if idx >= len(data_list):\n				data_list.append(new_val)\n				continue\n			data_list[idx] = new_val", rules=["b.write-keeps-length"]),
    dict(id="promote-filters-none", module=_V,
         old="			new_tuple = tuple(datetime.combine(x, datetime.min.time()) if x is not None else None for x in self._underlying)",
         new="			new_tuple = tuple(datetime.combine(x, datetime.min.time()) for x in self._underlying if x is not None)",
         rules=["b.write-keeps-length"]),
    dict(id="row-slice-skips-columns", module=_T,
         old="			return Vector(tuple(x[key] for x in self._underlying), \n				dtype = self._dtype,\n				name=self._name",
         new="			return Vector(tuple(x[key] for x in self._underlying if len(x)), \n				dtype = self._dtype,\n				name=self._name",
         rules=["c.uniform-rows"]),
    dict(id="row-snapshot-filtered", module=_T, old="		self._raw_cols = [col._underlying for col in table._underlying]",
         new="		self._raw_cols = [col._underlying for col in table._underlying if col._name is not None]", rules=["d.row-view"]),
    dict(id="row-getitem-off-by-one", module=_T, old="			 return self._raw_cols[key][self._index]", new="			 return self._raw_cols[key][self._index - 1]",
         rules=["d.row-view"]),
    dict(id="iter-skips-last-row", module=_T, old="		for i in range(n):\n			# No object creation in loop - just index update",
         new="		for i in range(n - 1):\n			# No object creation in loop - just index update", rules=["d.row-view"]),
    dict(id="transpose-drops-column", module=_T, old="				row = Vector(tuple(col[row_idx] for col in self._underlying))",
         new="				row = Vector(tuple(col[row_idx] for col in self._underlying[:-1]))", rules=["e.structural-ops"]),
    dict(id="length-recomputed-on-replace", module=_T, old="		new_col = value.copy()\n",
         new="		new_col = value.copy()\n		object.__setattr__(self, '_length', len(new_col))\n", rules=["a.length-field"]),
    dict(id="twin-guard-any-form", module=_T, twin=True,
         old="		for vec in initial:\n			if len(vec) != self._length:\n				raise SerifValueError(\n					f\"All columns of a Table must have the same length: \"\n					f\"expected {self._length}, got {len(vec)}\"\n				)\n",
         new="		if any(len(c) != self._length for c in initial):\n			raise SerifValueError(\"All columns of a Table must have the same length\")\n"),
    dict(id="twin-guard-any", module=_T, twin=True, old="		for vec in initial:\n			if len(vec) != self._length:",
         new="		for column in initial:\n			if len(column) != self._length:",
         ),
]

"""R-NAME: resolution of a column given BY NAME (shared by C07, C09, C10, C12, C13, C14, C17).

Joins, aggregate, window and sort_by accept key columns by name and resolve them through
Table._resolve_column -> Table.__getitem__(str).  The statement's "string indexing by a
stored name ... resolves to its first occurrence" is the contract they all rely on; if a
sanitised look-alike could win over the exactly named column, every by-name operation
silently works on the wrong column.  Structural rule:

  (1) _resolve_column(str)  returns  self[spec]           (delegation, no private lookup)
  (2) in Table.__getitem__'s string branch the FIRST thing that can return is a scan of
      ALL columns, in order, returning the first whose stored name == key; nothing else
      in the branch returns before that scan has finished; the branch ends by raising
      the missing-column error (SerifKeyError).
"""
from __future__ import annotations

import ast
from typing import List, Optional, Tuple

from ..cfg import cfg_of
from ..core import AnalysisError, attr_chain, short, walk_no_nested, walk_stmts


def string_branch(prog) -> Tuple[object, ast.If]:
    f = prog.func("table.Table.__getitem__")
    key = f.params[1]
    for s in f.body:
        if isinstance(s, ast.If) and short(s.test) == f"isinstance({key}, str)":
            return f, s
    raise AnalysisError("Table.__getitem__: string-key branch `if isinstance(key, str):` not found")


def exact_scan_problems(prog, body: List[ast.stmt], key_name: str, what: str, result_ok) -> List[Tuple[str, ast.AST]]:
    """`body` must start (after plain assignments) with
         for col in self._underlying:  if col._name == <key>: <result_ok(stmts)>"""
    probs: List[Tuple[str, ast.AST]] = []
    first = None
    for s in body:
        if isinstance(s, (ast.Assign, ast.AnnAssign)) or (isinstance(s, ast.Expr) and isinstance(s.value, ast.Constant)):
            continue
        first = s
        break
    if not isinstance(first, ast.For):
        return [(f"{what}: the branch does not start with the exact stored-name scan (starts with `{short(first, 60) if first else 'nothing'}`)",
                 first or body[0])]
    it = first.iter
    ok_iter = attr_chain(it) == ["self", "_underlying"] or short(it) == "self.cols()"
    if not ok_iter or not isinstance(first.target, ast.Name):
        probs.append((f"{what}: the first scan ranges over `{short(it)}`, not over all columns in order", first))
        return probs
    cv = first.target.id
    if not (len(first.body) == 1 and isinstance(first.body[0], ast.If) and not first.body[0].orelse
            and short(first.body[0].test) in (f"{cv}._name == {key_name}", f"{key_name} == {cv}._name")):
        probs.append((f"{what}: the first scan does more than the exact test `{cv}._name == {key_name}` "
                      f"(a sanitised look-alike placed earlier could win over the exactly named column)", first))
        return probs
    if first.orelse:
        probs.append((f"{what}: the exact scan has an else clause", first))
    if not result_ok(first.body[0].body, cv):
        probs.append((f"{what}: the exact match does not yield the matched column itself", first.body[0]))
    return probs


def _norm_search(t):
    """`X if X is not None else T`  (also `T if X is None else X`)  with  X = first@L(v | else None)  IS the chained search
    first@L(v | else T): a helper that runs the exact scan through next(..., None), returns the hit when there is one and only
    then goes on to the look-alike pass yields this shape.  (v is a column, never None; the rule checks v == the element.)"""
    from ..symx import NONE as SNONE
    if not isinstance(t, tuple) or not t:
        return t
    if t[0] == "cmp" and len(t) == 4 and t[1] in ("Is", "IsNot"):
        return (t[0], t[1], _norm_search(t[2]), _norm_search(t[3]))
    if t[0] != "ifexp":
        return t
    c = t[1]
    if not (c[0] == "cmp" and c[1] in ("Is", "IsNot") and c[3] == SNONE):
        return t
    X = _norm_search(c[2])
    when_none, other = (t[2], t[3]) if c[1] == "Is" else (t[3], t[2])
    tail = X
    while tail[0] == "first":
        tail = tail[3]
    if X[0] != "first" or tail != SNONE or _norm_search(other) != X:
        return t

    def assume_none(u):
        # under `X is None`
        while isinstance(u, tuple) and u and u[0] == "ifexp" and u[1][0] == "cmp" and u[1][1] in ("Is", "IsNot") \
                and u[1][3] == SNONE and _norm_search(u[1][2]) == X:
            u = u[2] if u[1][1] == "Is" else u[3]
        return _norm_search(u)

    def graft(x, new_tail):
        return (x[0], x[1], x[2], graft(x[3], new_tail)) if x[0] == "first" else new_tail
    return graft(X, assume_none(when_none))


class _NormEvent:
    """an event of the log with its search terms normalised (see _norm_search)"""
    def __init__(self, e):
        self._e = e
        self.term = _norm_search(e.term) if e.kind == "return" else e.term
        self.conds = _norm_conds(e.conds)

    def __getattr__(self, k):
        return getattr(self._e, k)


def _norm_conds(conds):
    out = []
    for c in conds:
        if isinstance(c, tuple) and len(c) == 2 and isinstance(c[1], bool):
            out.append((_norm_search(c[0]), c[1]))
        else:
            out.append(c)
    return tuple(out)


def check(ctx, rule: str = "name-resolution") -> None:
    """Decided on the symx event log of Table._resolve_column and Table.__getitem__ (returns / raises with their path
    conditions), so the rule does not depend on how the branches and scans are written."""
    from ..symx import Interp as SInterp
    from ..symx import flatten_conds, show, show_conds, subterms
    prog = ctx.prog
    probs: List[Tuple[str, ast.AST]] = []
    # (1) delegation
    rc = prog.func("table.Table._resolve_column")
    it = SInterp(prog, rc)
    S, spec = ("param", rc.params[0]), ("param", rc.params[1])
    is_str = ("call", ("name", "isinstance"), (spec, ("name", "str")), ())
    is_vec = ("call", ("name", "isinstance"), (spec, ("name", "Vector")), ())
    rets = [e for e in it.events if e.kind == "return" and e.depth == 0]
    str_rets = [e for e in rets if (is_str, True) in flatten_conds(e.conds)]
    vec_rets = [e for e in rets if (is_vec, True) in flatten_conds(e.conds) and (is_str, True) not in flatten_conds(e.conds)]
    if not str_rets:
        probs.append(("_resolve_column: string branch not found", rc.node))
    for e in str_rets:
        if e.term != ("sub", S, spec):
            probs.append((f"_resolve_column resolves a name with `{show(e.term, it)[:70]}` instead of string indexing "
                          f"self[{rc.params[1]}] (exact stored name first, first occurrence)", e.node))
    for e in vec_rets:
        if e.term != spec:
            probs.append((f"_resolve_column handles a Vector spec by `{show(e.term, it)[:70]}`: a column given as a vector must be used "
                          f"as given (a derived vector that keeps a column's name is NOT that column)", e.node))
    # a vector given as ONE column is one-dimensional: a table (a 2-D vector - its elements are its COLUMNS) handed on as a column
    # would be read row for column by every caller (aggregate / window arguments, sort keys, join keys)
    two_d = lambda c: c[0] == "cmp" and c[1] in ("Eq", "NotEq", "Lt", "GtE", "Gt", "LtE") and any(
        x == ("call", ("attr", spec, "ndims"), (), ()) for x in (c[2], c[3]))
    for e in vec_rets:
        guarded = any(two_d(c) or (c[0] == "call" and c[1] == ("name", "isinstance") and c[2][0] == spec and c[2][1] == ("name", "Table"))
                      for c, pol in flatten_conds(e.conds))
        if e.term == spec and not guarded:
            probs.append(("_resolve_column hands a two-dimensional vector (a table) on as ONE column: its elements are its columns, so "
                          "t.aggregate(over='g', sum_over=t['x', 'y']) reads column i where row i is meant (nested rows, wrong counts)",
                          e.node))
    for e in rets:
        if any(t[0] == "attr" and t[2] in ("_column_map", "_current_column_map") for t in subterms(e.term)):
            probs.append(("_resolve_column answers from the sanitised accessor map", e.node))
    ctx.ob(rule, rc, "delegation", not probs, "_resolve_column(str) delegates to self[spec]",
           probs[0][1] if probs else rc.node, message="; ".join(p for p, _ in probs))
    # (2) exact scan first
    f = prog.func("table.Table.__getitem__")
    gi = SInterp(prog, f)
    me = ("param", f.params[0])
    cols = ("attr", me, "_underlying")
    probs2: List[Tuple[str, ast.AST]] = []
    # the subject of the string test: the key (possibly passed through _check_duplicate at the top of the function)
    KEY = None
    for e in gi.events:
        for t, pol in flatten_conds(e.conds):
            if t[0] == "call" and t[1] == ("name", "isinstance") and len(t[2]) == 2 and t[2][1] == ("name", "str") and pol \
                    and any(x == ("param", f.params[1]) for x in subterms(t[2][0])):
                KEY = t[2][0]
                lit = t
                break
        if KEY is not None:
            break
    if KEY is None:
        raise AnalysisError("Table.__getitem__: string-key branch (a test isinstance(key, str)) not found")
    branch = [_NormEvent(e) for e in gi.events if (lit, True) in flatten_conds(e.conds) and e.kind in ("return", "raise")]
    branch.sort(key=lambda e: e.seq)
    what = "Table.__getitem__(str)"
    if not branch:
        probs2.append((f"{what}: the string branch neither returns nor raises", f.node))
    elif not any(e.kind == "return" and e.loops for e in branch) and any(e.kind == "return" and e.term[0] == "first" for e in branch):
        # search form: the branch returns  first@L1(col | else first@L2(... | else None))  - the result of a search helper
        # evaluated in line - and raises when that is None
        from ..symx import NONE as SNONE
        rets_ = [e for e in branch if e.kind == "return"]
        C = rets_[0].term
        if any(e.term != C for e in rets_):
            probs2.append((f"{what}: the string branch returns different searches", rets_[1].node))
        L1, V, rest = C[1], C[2], C[3]
        lp = gi.loops[L1]
        src = lp.domain if (lp.domain is not None and lp.domain[0] != "tuple") else lp.iter
        el = ("elem", cols, lp.id)
        before = [c for c in flatten_conds(lp.conds) if c != (lit, True)]
        found = [flatten_conds(c) for c in lp.found]
        if src != cols:
            probs2.append((f"{what}: the first scan ranges over `{show(src, gi)[:50]}`, not over all columns in order", rets_[0].node))
        elif found not in ([[(("cmp", "Eq", ("attr", el, "_name"), KEY), True)]], [[(("cmp", "Eq", KEY, ("attr", el, "_name")), True)]]):
            probs2.append((f"{what}: the first scan does more than the exact test `col._name == key` (matches under "
                           f"`{'` / `'.join(show_conds(c, gi)[:60] for c in found)}`: a sanitised look-alike placed earlier could win over the "
                           f"exactly named column)", rets_[0].node))
        elif V != el:
            probs2.append((f"{what}: the exact match does not yield the matched column itself", rets_[0].node))
        elif before:
            probs2.append((f"{what}: the exact scan runs only under `{show_conds(before, gi)[:60]}`", rets_[0].node))
        # the search result is returned exactly when it is not None, and a missing name raises
        isnone = ("cmp", "Is", C, SNONE)
        tail = C
        while tail[0] == "first":
            tail = tail[3]
        for e in rets_:
            if tail == SNONE and flatten_conds(e.conds) != [(lit, True), (isnone, False)]:
                probs2.append((f"{what}: the search result is returned under `{show_conds(e.conds, gi)[:60]}`", e.node))
        raises = [e for e in branch if e.kind == "raise"]
        okl = any(not e.loops and e.term[0] == "call" and e.term[1][0] == "name" and e.term[1][1] in ("_missing_col_error", "SerifKeyError")
                  and flatten_conds(e.conds) == [(lit, True), (isnone, True)] for e in raises)
        if tail != SNONE or not okl:
            probs2.append((f"{what}: the branch does not end by raising the missing-column error", (raises or rets_)[-1].node))
    else:
        first = branch[0]
        ok_first = False
        if first.kind == "return" and len(first.loops) == 1:
            lp = gi.loops[first.loops[0]]
            src = lp.domain if (lp.domain is not None and lp.domain[0] != "tuple") else lp.iter
            el = ("elem", cols, lp.id)
            inside = flatten_conds(first.conds[len(lp.conds):])
            before = [c for c in flatten_conds(lp.conds) if c != (lit, True)]
            if src != cols:
                probs2.append((f"{what}: the first scan ranges over `{show(src, gi)[:50]}`, not over all columns in order", first.node))
            elif inside not in ([(("cmp", "Eq", ("attr", el, "_name"), KEY), True)], [(("cmp", "Eq", KEY, ("attr", el, "_name")), True)]):
                probs2.append((f"{what}: the first scan does more than the exact test `col._name == key` (matches under "
                               f"`{show_conds(inside, gi)[:80]}`: a sanitised look-alike placed earlier could win over the exactly named column)",
                               first.node))
            elif first.term != el:
                probs2.append((f"{what}: the exact match does not yield the matched column itself", first.node))
            elif before:
                probs2.append((f"{what}: the exact scan runs only under `{show_conds(before, gi)[:60]}`", first.node))
            else:
                ok_first = True
                others = [e for e in branch if e is not first and lp.id in e.loops]
                if others:
                    probs2.append((f"{what}: the scan for the exactly named column is interleaved with other matches (`{others[0].kind} "
                                   f"{show(others[0].term, gi)[:40]}` in the same pass): a sanitised look-alike placed EARLIER wins over the "
                                   f"exactly named column", others[0].node))
        else:
            probs2.append((f"{what}: the branch does not start with the exact stored-name scan (first outcome is `{first.kind} "
                           f"{show(first.term, gi)[:60]}`)", first.node))
        last = branch[-1]
        exc = last.term
        okl = last.kind == "raise" and not last.loops and exc[0] == "call" and exc[1][0] == "name" \
            and exc[1][1] in ("_missing_col_error", "SerifKeyError") and [c for c in flatten_conds(last.conds)] == [(lit, True)]
        if not okl:
            probs2.append((f"{what}: the branch does not end by raising the missing-column error", last.node))
    ctx.ob(rule, f, "exact-name-first", not probs2,
           "Table.__getitem__(str): exact stored-name scan over all columns comes first; missing name raises",
           probs2[0][1] if probs2 else f.node, message="; ".join(p for p, _ in probs2))

"""R-NAME: resolution of a column given BY NAME (shared by C07, C09, C10, C12, C13, C14, C17).

Joins, aggregate, window and sort_by accept key columns by name and resolve them through
Table._resolve_column -> Table.__getitem__(str).  The statement's "string indexing by a
stored name ... resolves to its first occurrence" is the contract they all rely on; if a
sanitised look-alike could win over the exactly named column, every by-name operation
silently works on the wrong column.  Structural rule:

  (1) _resolve_column(str)  returns  self[spec]           (delegation, no private lookup)
  (2) in Table.__getitem__'s string branch the FIRST thing that can return is a scan of
      ALL columns, in order, returning the first whose stored name == key; nothing else
      in the branch returns before that scan has finished; the branch ends by raising
      the missing-column error (SerifKeyError).
"""
from __future__ import annotations

import ast
from typing import List, Optional, Tuple

from ..cfg import cfg_of
from ..core import AnalysisError, attr_chain, short, walk_no_nested, walk_stmts


def string_branch(prog) -> Tuple[object, ast.If]:
    f = prog.func("table.Table.__getitem__")
    key = f.params[1]
    for s in f.body:
        if isinstance(s, ast.If) and short(s.test) == f"isinstance({key}, str)":
            return f, s
    raise AnalysisError("Table.__getitem__: string-key branch `if isinstance(key, str):` not found")


def exact_scan_problems(prog, body: List[ast.stmt], key_name: str, what: str, result_ok) -> List[Tuple[str, ast.AST]]:
    """`body` must start (after plain assignments) with
         for col in self._underlying:  if col._name == <key>: <result_ok(stmts)>"""
    probs: List[Tuple[str, ast.AST]] = []
    first = None
    for s in body:
        if isinstance(s, (ast.Assign, ast.AnnAssign)) or (isinstance(s, ast.Expr) and isinstance(s.value, ast.Constant)):
            continue
        first = s
        break
    if not isinstance(first, ast.For):
        return [(f"{what}: the branch does not start with the exact stored-name scan (starts with `{short(first, 60) if first else 'nothing'}`)",
                 first or body[0])]
    it = first.iter
    ok_iter = attr_chain(it) == ["self", "_underlying"] or short(it) == "self.cols()"
    if not ok_iter or not isinstance(first.target, ast.Name):
        probs.append((f"{what}: the first scan ranges over `{short(it)}`, not over all columns in order", first))
        return probs
    cv = first.target.id
    if not (len(first.body) == 1 and isinstance(first.body[0], ast.If) and not first.body[0].orelse
            and short(first.body[0].test) in (f"{cv}._name == {key_name}", f"{key_name} == {cv}._name")):
        probs.append((f"{what}: the first scan does more than the exact test `{cv}._name == {key_name}` "
                      f"(a sanitised look-alike placed earlier could win over the exactly named column)", first))
        return probs
    if first.orelse:
        probs.append((f"{what}: the exact scan has an else clause", first))
    if not result_ok(first.body[0].body, cv):
        probs.append((f"{what}: the exact match does not yield the matched column itself", first.body[0]))
    return probs


def check(ctx, rule: str = "name-resolution") -> None:
    prog = ctx.prog
    probs: List[Tuple[str, ast.AST]] = []
    # (1) delegation
    rc = prog.func("table.Table._resolve_column")
    spec = rc.params[1]
    found = False
    for s in rc.body:
        if isinstance(s, ast.If) and short(s.test) == f"isinstance({spec}, str)":
            found = True
            if not (len(s.body) == 1 and isinstance(s.body[0], ast.Return) and short(s.body[0].value) == f"self[{spec}]"):
                probs.append((f"_resolve_column resolves a name with `{short(s.body[0], 70)}` instead of string indexing "
                              f"self[{spec}] (exact stored name first, first occurrence)", s))
    if not found:
        probs.append(("_resolve_column: string branch not found", rc.node))
    vec_ok = False
    for s in walk_stmts(rc.body):
        if isinstance(s, ast.If) and short(s.test) == f"isinstance({spec}, Vector)":
            vec_ok = len(s.body) == 1 and isinstance(s.body[0], ast.Return) and short(s.body[0].value) == spec
            if not vec_ok:
                probs.append((f"_resolve_column handles a Vector spec by `{short(s.body[0], 70)}`: a column given as a vector must be used "
                              f"as given (a derived vector that keeps a column's name is NOT that column)", s))
    for s in walk_stmts(rc.body):
        if isinstance(s, ast.Assign) and any(isinstance(t, ast.Name) and t.id == spec for t in s.targets):
            probs.append((f"_resolve_column rewrites its spec (`{short(s, 60)}`) before resolving it", s))
    for s in walk_stmts(rc.body):
        if isinstance(s, ast.Return) and s.value is not None and any(
                isinstance(n, ast.Attribute) and n.attr in ("_column_map",) or
                (isinstance(n, ast.Call) and isinstance(n.func, ast.Attribute) and n.func.attr == "_current_column_map")
                for n in ast.walk(s.value)):
            probs.append(("_resolve_column answers from the sanitised accessor map", s))
    ctx.ob(rule, rc, "delegation", not probs, "_resolve_column(str) delegates to self[spec]",
           probs[0][1] if probs else rc.node, message="; ".join(p for p, _ in probs))
    # (2) exact scan first
    f, br = string_branch(prog)
    key = f.params[1]

    def returns_col(stmts, cv):
        return len(stmts) == 1 and isinstance(stmts[0], ast.Return) and isinstance(stmts[0].value, ast.Name) \
            and stmts[0].value.id == cv
    probs2 = exact_scan_problems(prog, br.body, key, "Table.__getitem__(str)", returns_col)
    # nothing returns before the scan; last statement raises the missing-column error
    if not probs2:
        scan = next(s for s in br.body if isinstance(s, ast.For))
        for s in br.body[: br.body.index(scan)]:
            for n in walk_stmts([s]):
                if isinstance(n, ast.Return):
                    probs2.append(("Table.__getitem__(str): something returns before the exact stored-name scan", n))
        # the key must not be rebound before the scan
        for s in br.body[: br.body.index(scan)]:
            if isinstance(s, ast.Assign) and any(isinstance(t, ast.Name) and t.id == key for t in s.targets):
                probs2.append((f"Table.__getitem__(str): `{key}` is rewritten before the exact scan", s))
    last = br.body[-1]
    if not (isinstance(last, ast.Raise) and isinstance(last.exc, ast.Call) and isinstance(last.exc.func, ast.Name)
            and last.exc.func.id in ("_missing_col_error", "SerifKeyError")):
        probs2.append(("Table.__getitem__(str): the branch does not end by raising the missing-column error", last))
    ctx.ob(rule, f, "exact-name-first", not probs2,
           "Table.__getitem__(str): exact stored-name scan over all columns comes first; missing name raises",
           probs2[0][1] if probs2 else br, message="; ".join(p for p, _ in probs2))

"""C06 - None is handled uniformly: propagates, compares False, is skipped by reductions."""
from __future__ import annotations

import ast
from typing import List

from ..aggfacts import compare_with_spec
from ..core import AnalysisError, attr_chain, kwarg, short, walk_no_nested, walk_stmts
from ..groupsx import GroupModel
from .grouprules import vector_reduction_facts
from ..sites import comp_of, fill_of, same_elements_of
from . import c05, c07
from . import grouprules as gr


def run(ctx) -> None:
    ctx.rule("a.arith-kernels", "every arithmetic kernel maps a None operand to None: `None if <x is None [or y is None]> else op(...)` "
                                "(comprehension form) or `if ... is None: append(None) else: append(op)` (loop form)", 5)
    ctx.rule("a.compare-kernels", "every comparison kernel maps a None operand to False (as C07.a)", 2)
    ctx.rule("b.reductions", "sum, mean, stdev, any, all, max, min reduce self._underlying filtered by `is not None`; counts are "
                             "taken of the filtered values; no value -> None (mean/min/max/stdev), 0 (sum)", 7)
    ctx.rule("c.aggregators", "each of the 12 group aggregators (aggregate x6, window x6) filters None, uses the textbook reducer, "
                              "the right empty-group result, minimum count and divisor", 12)
    ctx.rule("c.aggregator-applied", "every group's value is fn(values of the group): exactly one call per group, no path around the "
                                     "aggregate function (a pass-through would leak a None)", 2)
    ctx.rule("c.siblings", "aggregate, window and Vector reductions are fact-equal per function", 10)
    ctx.rule("d.na-triple", "isna marks `x is None`, dropna keeps exactly `x is not None` (result non-nullable), fillna replaces "
                            "exactly `x is None` and nothing else", 4)
    ctx.section("arith", _arith, ctx)
    ctx.section("compare", _compare, ctx)
    ctx.section("reductions", _reductions, ctx)
    ctx.section("aggregators", _aggregators, ctx)
    ctx.section("na", _na, ctx)
    ctx.not_decided.append("numeric agreement of a reduction with the reduction of the None-free list (delegated to the builtin)")
    ctx.info("`~v` on a nullable bool vector computes `not None` = True (logical not is not in the statement's list of arithmetic operators)")


def _arith(ctx) -> None:
    class Px:
        prog = ctx.prog

        def ob(self, rule, func, role, ok, what, node=None, message="", witness=""):
            if rule == "c.pairing":
                return ctx.ob("a.arith-kernels", func, role, ok, what, node, message, witness)
            return ok
    c05._pairing(Px())
    # the unary kernel is reported by c05._dispatch under c.pairing
    c05._dispatch(Px())
    # _Date.__add__ (dates + days): None kept, decided with the same element evaluation as C05.e
    class Pw:
        prog = ctx.prog

        def ob(self, rule, func, role, ok, what, node=None, message="", witness=""):
            if rule == "e.wrappers" and role == "date-add":
                return ctx.ob("a.arith-kernels", func, role, ok, what, node, message, witness)
            return ok
    c05._wrappers(Pw())


def _compare(ctx) -> None:
    class Px:
        prog = ctx.prog

        def ob(self, rule, func, role, ok, what, node=None, message="", witness=""):
            if rule == "a.compare-kernels":
                return ctx.ob("a.compare-kernels", func, role, ok, what, node, message, witness)
            return ok
    c07._compare(Px())


def _reductions(ctx) -> None:
    prog = ctx.prog
    spec = {
        "sum": {"kind": "sum", "filter": "not-none", "empty": 0},
        "mean": {"kind": "mean", "filter": "not-none", "empty": None, "divisor": "n"},
        "min": {"kind": "min", "filter": "not-none", "empty": None},
        "max": {"kind": "max", "filter": "not-none", "empty": None},
        "any": {"kind": "any", "filter": "not-none"},
        "all": {"kind": "all", "filter": "not-none"},
        "stdev": {"kind": "stdev", "filter": "not-none", "empty": None, "min_count": 2, "divisor": "n-1+population"},
    }
    for name, want in spec.items():
        f = prog.func(f"vector.Vector.{name}")
        facts = vector_reduction_facts(prog, name)
        bad = [f"{k} is {facts.get(k)!r}, must be {v!r}" for k, v in want.items() if facts.get(k) != v]
        ctx.ob("b.reductions", f, "facts", not bad, f"Vector.{name}: {gr.fmt(facts)}", f.node,
               message=f"Vector.{name}(): " + "; ".join(bad) + (f" [`{facts.get('detail')}`]" if facts.get("kind") == "?" or bad else ""))


def _aggregators(ctx) -> None:
    agg = GroupModel(ctx.prog, "aggregate")
    win = GroupModel(ctx.prog, "window")
    gr.aggregator_table(ctx, agg, "c.aggregators")
    gr.aggregator_table(ctx, win, "c.aggregators")
    gr.siblings(ctx, agg, win, "c.siblings")
    # the None-skipping aggregator is what produces every group's value (no bypass around it)
    gr.group_value_flow(ctx, agg, "c.aggregator-applied")
    gr.group_value_flow(ctx, win, "c.aggregator-applied")


def _na(ctx) -> None:
    """isna / dropna / fillna on the symx event log (closures and later helpers in line)."""
    from ..sites2 import all_sites2, comp_parts, interp_of, leaves
    from ..sites2 import fill_of as fill_of2
    from ..sites2 import same_elements_of as same2
    from ..symx import NONE as SNONE
    from ..symx import kw, show
    prog = ctx.prog
    f = prog.func("vector.Vector.isna")
    it = interp_of(prog, f)
    SELF = ("param", f.params[0])
    stor = ("attr", SELF, "_underlying")
    rets = [e for e in it.events if e.kind == "return" and e.depth == 0]
    ok = False
    if len(rets) == 1 and rets[0].term[0] == "call" and rets[0].term[2]:
        cp = comp_parts(it, rets[0].term[2][0])
        if cp is not None and len(cp[0]) == 1 and not cp[1]:
            src = it.loops[cp[0][0]].iter
            ok = src in (stor, SELF) and cp[2] == ("cmp", "Is", ("elem", src, cp[0][0]), SNONE)
    ctx.ob("d.na-triple", f, "isna", ok, "isna: x is None per element", f.node, message="isna does not mark exactly the None elements")
    f = prog.func("vector.Vector.dropna")
    it = interp_of(prog, f)
    SELF = ("param", f.params[0])
    rets = [e for e in it.events if e.kind == "return" and e.depth == 0]
    problems = []
    for r in rets:
        v = r.term
        if not (v[0] == "call" and v[1] == ("name", "Vector") and v[2]):
            problems.append(f"returns `{show(v, it)[:60]}`")
            continue
        for d in leaves(v[2][0]):
            se = same2(it, d)
            if not (se and se[0] == SELF and se[1] == "filter-not-none"):
                problems.append(f"`{show(d, it)[:70]}` does not keep exactly the elements that are not None")
        dt = kw(v, "dtype")
        want = ("call", ("attr", ("attr", SELF, "_dtype"), "with_nullable"), (("const", "bool", False),), ())
        # an untyped (empty) vector has no dtype: `None if self._dtype is None else <want>` is the same rule
        D = ("attr", SELF, "_dtype")
        if dt is not None and dt[0] == "ifexp" and dt[1] == ("cmp", "Is", D, SNONE) and dt[2] == SNONE:
            dt = dt[3]
        if dt != want:
            problems.append(f"the result dtype is `{show(dt, it)[:50] if dt is not None else 'inferred'}`, expected self's dtype made non-nullable")
    ctx.ob("d.na-triple", f, "dropna", not problems and bool(rets), "dropna: filter `is not None`, non-nullable", f.node,
           message="dropna: " + "; ".join(problems))
    f = prog.func("vector.Vector.fillna")
    SELF = ("param", f.params[0])
    val = ("param", f.params[1])
    k = 0
    seen = set()
    for s in all_sites2(prog):
        if s.top is not f or s.kind != "Vector":
            continue
        for d in leaves(s.data):
            key = (id(s.it), d)
            if key in seen:
                continue
            seen.add(key)
            k += 1
            fo = fill_of2(s.it, d)
            src_ok = fo is not None and fo[0] in (SELF, ("call", ("attr", SELF, "copy"), (), ()))
            ok = fo is not None and fo[1] == val and src_ok
            ctx.ob("d.na-triple", f, f"fillna:{k}", ok, "fillna: value if x is None else x over all elements", s.node,
                   message=f"fillna builds `{s.sh(d, 70)}`; expected `{f.params[1]} if x is None else x` over every element of self (or of a "
                           f"fresh copy of self)")
    if k < 2:
        raise AnalysisError("fillna: expected two fill results (promoting and standard path)")
    itf = interp_of(prog, f)
    from ..symx import flatten_conds, subterms
    # ... and every result IS such a fill: a result that is a copy of self as it stands (a 'nothing to fill' fast path) keeps the
    # dtype's nullable flag - a vector declared nullable that holds no None (a slice or mask of a nullable column) would come back
    # nullable from fillna(x) while dropna() reports it non-nullable
    rprobs = []
    for r in itf.events:
        if r.kind != "return" or r.depth != 0:
            continue
        for lf in leaves(r.term):
            if lf[0] == "call" and lf[1][0] == "attr" and lf[1][2] == "copy" and lf[1][1] == SELF:
                non_nullable = any(t[0] == "attr" and t[2] == "nullable" and not pol for t, pol in flatten_conds(r.conds))
                if not non_nullable:
                    rprobs.append(f"`return {show(lf, itf)[:40]}` (line {getattr(r.node, 'lineno', 0)}): a copy of self keeps a nullable dtype although "
                                  f"the result holds no None")
            elif not (lf[0] == "call" and lf[1] in (("name", "Vector"),)):
                rprobs.append(f"`return {show(lf, itf)[:40]}` is not a vector built from the filled elements")
    ctx.ob("d.na-triple", f, "fillna-returns", not rprobs, "every fillna result is built from the filled elements (non-nullable by construction)",
           f.node, message="fillna: " + "; ".join(rprobs[:2]))
    # an object vector (all-None columns, mixed values) accepts any fill value: no rejection may be reachable for it
    bad = []
    for e in itf.events:
        if e.kind != "raise":
            continue
        excl = any((not pol) and t[0] == "cmp" and t[1] in ("Is", "Eq") and t[3] == ("name", "object")
                   and t[2][0] == "attr" and t[2][2] == "kind" for t, pol in flatten_conds(e.conds))
        if not excl:
            bad.append(f"`raise {show(e.term, itf)[:50]}` (line {getattr(e.node, 'lineno', '?')}) is reachable for an object vector: validate_scalar "
                       f"accepts nothing for <object> and promotion from object is impossible, so every fill of an all-None or mixed vector "
                       f"would be refused")
    ctx.ob("d.na-triple", f, "fillna-object", not bad, "fillna never rejects a value for an object vector", f.node, message="; ".join(bad[:1]))


_V, _T = "vector", "table"
MUTANTS = [
    dict(id="window-singleton-passthrough", module="table",
         old="				vals = [data[i] for i in rows]\n				out[key] = fn(vals)",
         new="				vals = [data[i] for i in rows]\n				out[key] = fn(vals) if len(rows) > 1 else data[rows[0]]",
         rules=["c.aggregator-applied"], desc="a one-row partition leaks its None instead of the aggregate of nothing"),
    dict(id="aggregate-singleton-passthrough", module="table",
         old="				res = func(vals)\n				out.append(res)", new="				res = vals[0] if len(vals) == 1 else func(vals)\n				out.append(res)",
         rules=["c.aggregator-applied"]),
    dict(id="window-helper-extra-flag", module="table",
         edits=[("table", "		def compute_group_values(col, fn):\n			data = col._underlying\n			out = {}\n			for key, rows in group_items:\n",
                 "		def compute_group_values(col, fn, passthrough=False):\n			data = col._underlying\n			out = {}\n			for key, rows in group_items:\n"
                 "				if passthrough and len(rows) == 1:\n					out[key] = data[rows[0]]\n					continue\n", 1),
                ("table", "				gm = compute_group_values(col, fn)\n", "				gm = compute_group_values(col, fn, passthrough=True)\n", 6)],
         rules=["c.aggregator-applied"], desc="a flag that lets one-row partitions by-pass the reducer, switched on at the call sites"),
    dict(id="twin-window-helper-unused-flag", module="table", twin=True,
         old="		def compute_group_values(col, fn):\n			data = col._underlying\n			out = {}\n			for key, rows in group_items:\n",
         new="		def compute_group_values(col, fn, passthrough=False):\n			data = col._underlying\n			out = {}\n			for key, rows in group_items:\n"
             "				if passthrough and len(rows) == 1:\n					out[key] = data[rows[0]]\n					continue\n"),
    dict(id="compare-kernel-drops-none-guard", module=_V,
         old="		result_values = tuple(False if x is None else bool(op(x, other)) for x in self)",
         new="		result_values = tuple(bool(op(x, other)) for x in self)", rules=["a.compare-kernels"]),
    dict(id="sum-unfiltered", module=_V, old="		return sum(v for v in self._underlying if v is not None)", new="		return sum(self._underlying)",
         rules=["b.reductions"]),
    dict(id="mean-divides-by-len-self", module=_V, old="		return sum(non_none) / len(non_none) if non_none else None",
         new="		return sum(non_none) / len(self) if non_none else None", rules=["b.reductions", "c.siblings"]),
    dict(id="window-count-unfiltered", module=_T, old="				def fn(vals):\n					return sum(1 for v in vals if v is not None)",
         new="				def fn(vals):\n					return sum(1 for v in vals)", rules=["c.aggregators", "c.siblings"]),
    dict(id="aggregate-stdev-population", module=_T,
         old="					variance = sum((v - mean_val) * (v - mean_val) for v in clean) / (n - 1)", new="					variance = sum((v - mean_val) * (v - mean_val) for v in clean) / n",
         rules=["c.aggregators", "c.siblings"]),
    dict(id="fillna-validates-object-vectors", module=_V, old="		if dtype is not None and value is not None and dtype.kind is not object:",
         new="		if dtype is not None and value is not None:", rules=["d.na-triple"],
         desc="the defect repaired by fix 9a342bb: Vector([None, None]).fillna(0) raises ValueError"),
    dict(id="fillna-tests-falsy", module=_V, old="		out = tuple(value if x is None else x for x in self._underlying)",
         new="		out = tuple(value if not x else x for x in self._underlying)", rules=["d.na-triple"]),
    dict(id="max-filter-truthy", module=_V, old="		non_none = [v for v in self._underlying if v is not None]\n		return _extreme(non_none, max) if non_none else None",
         new="		non_none = list(filter(None, self._underlying))\n		return _extreme(non_none, max) if non_none else None", rules=["b.reductions", "c.siblings"]),
    dict(id="window-mean-len-vals", module=_T,
         old="				def fn(vals):\n					clean = [v for v in vals if v is not None]\n					return sum(clean) / len(clean) if clean else None",
         new="				def fn(vals):\n					clean = [v for v in vals if v is not None]\n					return sum(clean) / len(vals) if clean else None",
         rules=["c.aggregators", "c.siblings"]),
    dict(id="elementwise-scalar-no-none-guard", module=_V,
         old="			result_values = tuple(None if x is None else op_func(x, other) for x in self._underlying)",
         new="			result_values = tuple(op_func(x, other) for x in self._underlying)", rules=["a.arith-kernels"]),
    dict(id="dropna-keeps-falsy-out", module=_V,
         old="		return Vector(tuple(elem for elem in self._underlying if elem is not None),\n			dtype=self._dtype.with_nullable(False) if self._dtype is not None else None,\n			name=self._name, as_row=self._display_as_row)",
         new="		return Vector(tuple(elem for elem in self._underlying if elem),\n			dtype=self._dtype.with_nullable(False) if self._dtype is not None else None,\n			name=self._name, as_row=self._display_as_row)", rules=["d.na-triple"]),
    dict(id="aggregate-min-empty-zero", module=_T,
         old="					clean = [v for v in vals if v is not None]\n					return _extreme(clean, min) if clean else None",
         new="					clean = [v for v in vals if v is not None]\n					return _extreme(clean, min) if clean else 0", rules=["c.aggregators"], count=2, nth=0),
    dict(id="twin-filter-lambda", module=_V, twin=True, old="		non_none = [v for v in self._underlying if v is not None]\n		return _extreme(non_none, max) if non_none else None",
         new="		kept = list(filter(lambda item: item is not None, self._underlying))\n		return _extreme(kept, max) if kept else None"),
]

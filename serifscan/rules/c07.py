"""C07 - masks and indexing follow Python sequence semantics and compose.

Decided structurally: comparison kernels construct non-nullable bool vectors from bool(op(x, y))
in operand order; indexing delegates to tuple indexing and the delegated result is what is
returned (no truthiness-selected alternative on the way: an empty result is falsy); masks filter
zip(self, key) by the mask element after a length guard; a requested column that does not exist
is an error (no dead raise, every iteration of the multi-name loop appends or raises); the same
row key is mapped over all columns.
"""
from __future__ import annotations

import ast
from typing import List, Optional, Tuple

from ..astutil import Defs
from ..cfg import cfg_of, flag_paths
from ..core import AnalysisError, FuncInfo, attr_chain, cshort, kwarg, short, walk_no_nested, walk_stmts
from ..sites import Resolver, all_sites, comp_of, is_bool_expr, same_elements_of
from . import nameres

COMPARE_DISPATCH = {
    "__eq__": "operator.eq", "__ne__": "operator.ne", "__lt__": "operator.lt", "__le__": "operator.le",
    "__gt__": "operator.gt", "__ge__": "operator.ge", "__and__": "operator.and_", "__or__": "operator.or_",
    "__xor__": "operator.xor", "__rand__": "operator.and_", "__ror__": "operator.or_", "__rxor__": "operator.xor",
}


def run(ctx) -> None:
    ctx.rule("a.compare-kernels", "every vector built by a comparison kernel has the constant non-nullable bool dtype and "
                                  "elements `False if <a None operand> else bool(op(x, y))` with x from self, y from other", 2)
    ctx.rule("a.dispatch", "each comparison/logical dunder forwards to _elementwise_compare with the operator of its name", 12)
    ctx.rule("b.int-index", "v[int] returns self._underlying[key] (tuple indexing) - same in Row / Table column access", 1)
    ctx.rule("b.slice-integrity", "v[slice] passes self._underlying[key] to copy() and nothing on the data flow to the "
                                  "constructor selects an alternative by TRUTH VALUE (an empty result is falsy): a parameter "
                                  "with default None that carries data must be tested with `is None` (R-FALSY)", 2)
    ctx.rule("c.mask", "both mask branches keep exactly the positions where the mask element is true: filter over "
                       "zip(self, key, strict=True) by the mask element, after a length guard, through copy(name=self._name)", 1)
    ctx.rule("c.index-list", "index-vector / index-list branches gather self[x] for x in key, in key order, through copy(name=self._name)", 1)
    ctx.rule("d.dead-raise", "every `raise` of the indexing code is reachable (an unreachable raise is a rejection the author "
                             "believed in but the code does not enforce)", 4)
    ctx.rule("d.must-append", "multi-name selection: every feasible path through one iteration of `for name in key` appends "
                              "a column or raises (flag-sensitive); the exact stored-name scan comes first", 2)
    ctx.rule("d.dispatch-exhaustive", "Vector.__getitem__ ends by raising for unsupported key types", 1)
    ctx.rule("f.untyped-empty", "`all vectors` includes the one without a dtype (Vector([]), a column of Table({'a': []})): no "
                                "`X._dtype.<attr>` / `X.schema().<attr>` is reachable while that dtype can be None - guards on the path or "
                                "inside the expression, dtypes passed through collections, `self` of a typed subclass; a private method "
                                "that relies on its callers is judged at every call site", 3)
    ctx.section("untyped-empty", _untyped_empty, ctx)
    ctx.rule("e.uniform-rows", "every row-selection branch of Table.__getitem__ maps the SAME key over ALL columns, unfiltered, in order", 2)
    ctx.rule("f.name-resolution", "string indexing: exact stored name first over all columns, missing name raises (R-NAME)", 2)
    ctx.section("compare", _compare, ctx)
    ctx.section("invert", _invert, ctx)
    ctx.section("index", _index, ctx)
    ctx.section("mask", _mask, ctx)
    ctx.section("missing", _missing, ctx)
    ctx.section("empty-list-mask", _empty_list_mask, ctx)
    ctx.section("mapping-is-one-operand", _mapping_is_one_operand, ctx)
    ctx.section("rows", _rows, ctx)
    ctx.section("names", nameres.check, ctx, "f.name-resolution")
    ctx.not_decided += [
        "equality list(v[s]) == list(v)[s] beyond delegation to tuple.__getitem__ (slice arithmetic of typeutils.slice_length "
        "is a numeric property)",
        "the commuting equation t[rows][cols] == t[cols][rows] as an equation on values (decided: the same key is mapped "
        "over all columns and column selection copies whole columns)",
    ]


# ---------------------------------------------------------------------------------------------
def _kernel_elt_ok(elt: ast.AST, xs: List[str], op: str, order: Optional[Tuple[str, ...]] = None) -> Optional[str]:
    """`False if (x is None or y is None) else bool(op(x, y))` ; xs = element variables in operand order."""
    if not isinstance(elt, ast.IfExp):
        return f"element `{short(elt, 60)}` has no None guard"
    if not (isinstance(elt.body, ast.Constant) and elt.body.value is False):
        return f"a None operand yields `{short(elt.body)}`, not False"
    guarded = set()
    t = elt.test
    parts = t.values if (isinstance(t, ast.BoolOp) and isinstance(t.op, ast.Or)) else [t]
    for p in parts:
        if isinstance(p, ast.Compare) and len(p.ops) == 1 and isinstance(p.ops[0], ast.Is) and isinstance(p.left, ast.Name) \
                and isinstance(p.comparators[0], ast.Constant) and p.comparators[0].value is None:
            guarded.add(p.left.id)
        else:
            return f"None guard `{short(t)}` is not a disjunction of `<operand> is None` tests"
    if guarded != set(xs):
        return f"None guard covers {sorted(guarded)}, the operands that can be None are {xs}"
    b = elt.orelse
    if not (isinstance(b, ast.Call) and isinstance(b.func, ast.Name) and b.func.id == "bool" and len(b.args) == 1):
        return f"the comparison result `{short(b, 50)}` is not wrapped in bool(...): `&`/`|` on ints would yield ints under a bool dtype"
    c = b.args[0]
    if not (isinstance(c, ast.Call) and isinstance(c.func, ast.Name) and c.func.id == op and len(c.args) == 2):
        return f"the element operation is `{short(c, 50)}`, not {op}(x, y)"
    return None


def _compare(ctx) -> None:
    prog = ctx.prog
    # dispatch
    from ..symx import strip_not
    from .c05 import _A, _B, _BIN, _CMP, _apply_op, _returns_of
    from ..symx import show as _show
    for name, want in COMPARE_DISPATCH.items():
        f = prog.method("Vector", name)
        if f is None:
            raise AnalysisError(f"Vector.{name} vanished")
        it, rets = _returns_of(prog, f)
        SELF = ("param", f.params[0])
        opn = want.split(".")[1]
        wants = [("cmp", _CMP[opn], _A, _B)] if opn in _CMP else [("bin", _BIN[opn], _A, _B), ("bin", _BIN[opn], _B, _A)]
        problems = []
        if not rets or it.falls_through:
            problems.append("does not return the kernel's result on every path")
        for e in rets:
            t = e.term
            if not (t[0] == "call" and t[1] == ("attr", SELF, "_elementwise_compare") and len(t[2]) == 2 and not t[3]
                    and t[2][0] == ("param", f.params[1])):
                problems.append(f"returns `{_show(t, it)[:60]}`, expected self._elementwise_compare({f.params[1]}, {want})")
                continue
            got = _apply_op(prog, it, f, t[2][1], (_A, _B))
            if got is not None and got[0] == "cmp":
                b, flip = strip_not(got)
                got = got if not flip else got
            if got not in wants:
                problems.append(f"the operator handed to the kernel computes `{_show(got) if got else '?'}`, expected `{_show(wants[0])}`")
        ctx.ob("a.dispatch", f, "dispatch", not problems, f"{name} -> _elementwise_compare(other, {want})", rets[0].node if rets else f.node,
               message=f"Vector.{name}: " + "; ".join(problems[:2]))
    # kernels: every Vector(...) result of the two comparison kernels, on the symx event log (closures / helpers in line)
    from ..sites2 import all_sites2, comp_parts, leaves
    from ..symx import NONE as SNONE
    from ..symx import const, subterms
    for q in ("vector.Vector._elementwise_compare", "vector._Date._elementwise_compare"):
        f = prog.func(q)
        SELF = ("param", f.params[0])
        op = ("param", f.params[2])
        k = 0
        for s in all_sites2(prog):
            if s.top is not f or s.kind != "Vector":
                continue
            it = s.it
            k += 1
            problems = []
            okdt = (("call", ("name", "DataType"), (("name", "bool"),), ()),
                    ("call", ("name", "DataType"), (("name", "bool"),), (("nullable", ("const", "bool", False)),)))
            for d in (leaves(s.dtype) or [None]):
                if d not in okdt:
                    problems.append(f"result dtype is `{s.sh(d, 40)}`, must be the constant non-nullable bool")
            if s.name is not None and s.name != SNONE:
                problems.append(f"comparison result is named `{s.sh(s.name, 40)}`")
            for d in leaves(s.data):
                cp = comp_parts(it, d)
                if cp is None or len(cp[0]) != 1 or cp[1]:
                    problems.append(f"result data `{s.sh(d, 50)}` is not an unfiltered comprehension")
                    continue
                (L,), _, v, ev = cp
                lp = it.loops[L]
                other_terms = [t for t in (("param", f.params[1]), ("call", ("attr", SELF, "_check_duplicate"), (("param", f.params[1]),), ()))]
                if lp.domain is not None and lp.domain[0] == "tuple":
                    doms = lp.domain[1]
                    strict = lp.iter is not None and lp.iter[0] == "call" and lp.iter[1] == ("name", "zip") \
                        and dict(lp.iter[3]).get("strict") == ("const", "bool", True)
                    if not (len(doms) == 2 and doms[0] == SELF and doms[1] in other_terms and strict):
                        problems.append(f"operands are paired by `{s.sh(lp.iter, 50)}`, expected zip(self, {f.params[1]}, strict=True)")
                        continue
                    xs = [("elem", doms[0], L), ("elem", doms[1], L)]
                    second = xs[1]
                else:
                    if lp.iter not in (SELF, ("attr", SELF, "_underlying")):
                        problems.append(f"scalar comparison iterates `{s.sh(lp.iter, 40)}`, not self")
                        continue
                    xs = [("elem", lp.iter, L)]
                    second = None
                why = _kernel_elt_term(s, v, xs, op, second, other_terms, date_kernel=q.startswith("vector._Date"))
                if why:
                    problems.append(why)
            ctx.ob("a.compare-kernels", f, f"kernel:{k}", not problems,
                   "non-nullable bool; False for None; bool(op(x, y)) in operand order", s.node, message="; ".join(problems))


def _invert(ctx) -> None:
    """~ on a boolean vector is a logical operator like the others: a non-nullable bool mask, None counting as False - on the
    construction sites of Vector.__invert__ (sites2)."""
    from ..sites2 import all_sites2, comp_parts, const_dtype, leaves
    from ..symx import NONE as SNONE
    from ..symx import show
    prog = ctx.prog
    f = prog.func("vector.Vector.__invert__")
    SELF = ("param", f.params[0])
    problems = []
    n = 0
    for st in all_sites2(prog):
        if st.top is not f or st.kind not in ("Vector", "cls"):
            continue
        n += 1
        cd = const_dtype(st.dtype) if st.dtype is not None else None
        if cd is None or cd[0] != ("name", "bool") or cd[1] is not False:
            problems.append(f"the result of ~ on a boolean vector is given the dtype `{st.sh(st.dtype, 40)}`, not the constant non-nullable "
                            f"<bool>: a nullable mask is refused by v[mask]")
        for d in leaves(st.data):
            cp = comp_parts(st.it, d)
            if cp is None or len(cp[0]) != 1 or cp[1]:
                problems.append(f"`{st.sh(d, 50)}` is not one value per element")
                continue
            (L,), extra, v, ev = cp
            lp = st.it.loops[L]
            x = ("elem", lp.iter, L)
            if lp.iter not in (SELF, ("attr", SELF, "_underlying")):
                problems.append(f"iterates `{show(lp.iter, st.it)[:30]}`, not self")
            elif v != ("ifexp", ("cmp", "Is", x, SNONE), ("const", "bool", False), ("un", "Not", x)):
                problems.append(f"element is `{show(v, st.it)[:60]}`, expected `False if x is None else not x` (a None element must count as "
                                f"False, as for every comparison and logical operator)")
    if n == 0:
        # no special bool branch: ~ goes through the generic unary kernel only
        ctx.ob("a.compare-kernels", f, "invert", True, "no boolean branch in __invert__")
        return
    ctx.ob("a.compare-kernels", f, "invert", not problems, "~bool vector: non-nullable <bool>, None -> False", f.node,
           message="; ".join(problems[:2]))


def _kernel_elt_term(s, v, xs, op, second, other_terms, date_kernel: bool) -> Optional[str]:
    """`False if (x is None or y is None) else bool(op(x', y'))`  (x', y' = the operands in written order; for the date kernel
    each may be converted, but must derive from its own side only)."""
    from ..symx import NONE as SNONE
    from ..symx import subterms
    if v[0] != "ifexp":
        return f"element `{s.sh(v, 60)}` has no None guard (a None element must compare False)"
    test, a, b = v[1], v[2], v[3]
    if a != ("const", "bool", False):
        return f"a None operand yields `{s.sh(a, 30)}`, not False"
    parts = list(test[2]) if (test[0] == "bool" and test[1] == "or") else [test]
    guarded = []
    for p in parts:
        if p[0] == "cmp" and p[1] == "Is" and p[3] == SNONE:
            guarded.append(p[2])
        else:
            return f"None guard `{s.sh(test, 60)}` is not a disjunction of `<operand> is None` tests"
    from ..symx import flatten_conds
    typed = {t[2][0] for t, pol in flatten_conds(s.ev.conds)
             if pol and t[0] == "call" and t[1] == ("name", "isinstance") and len(t[2]) == 2}
    # a test of the scalar operand that the path has already typed (isinstance(other, str)) can never hold: harmless
    guarded = [g for g in guarded if not (g not in xs and g in typed)]
    if sorted(map(repr, guarded)) != sorted(map(repr, xs)):
        return f"None guard covers {[s.sh(g, 20) for g in guarded]}, the operands that can be None are {[s.sh(x, 20) for x in xs]}"
    if not (b[0] == "call" and b[1] == ("name", "bool") and len(b[2]) == 1):
        return f"the comparison result `{s.sh(b, 50)}` is not wrapped in bool(...): `&`/`|` on ints would yield ints under a bool dtype"
    c = b[2][0]
    if not (c[0] == "call" and c[1] == op and len(c[2]) == 2 and not c[3]):
        return f"the element operation is `{s.sh(c, 50)}`, not {op[1]}(x, y)"
    a0, a1 = c[2]
    if not date_kernel:
        want = xs if len(xs) == 2 else None
        if want is not None:
            if [a0, a1] != want:
                return f"operands are passed as {op[1]}({s.sh(a0, 20)}, {s.sh(a1, 20)}), expected the elements in written operand order"
        elif a0 != xs[0] or a1 not in other_terms:
            return f"operands are passed as {op[1]}({s.sh(a0, 20)}, {s.sh(a1, 20)}), expected {op[1]}(x, other) (written operand order)"
        return None
    mine = xs[0]
    theirs = [second] if second is not None else list(other_terms)
    s0, s1 = list(subterms(a0)), list(subterms(a1))
    if mine not in s0 or any(t in s0 for t in theirs):
        return f"the left operand `{s.sh(a0, 40)}` is not derived from self's element"
    if not any(t in s1 for t in theirs) or mine in s1:
        return f"the right operand `{s.sh(a1, 40)}` is not derived from the other operand"
    return None


# ---------------------------------------------------------------------------------------------
def _index(ctx) -> None:
    """v[int] is tuple indexing, v[slice] copies the tuple slice - on the symx returns / copy sites of Vector.__getitem__ (an index
    helper in line; the key possibly passed through _check_duplicate)."""
    from ..sites2 import all_sites2, interp_of
    from ..symx import flatten_conds, show
    prog = ctx.prog
    f = prog.func("vector.Vector.__getitem__")
    it = interp_of(prog, f)
    SELF, K = ("param", f.params[0]), ("param", f.params[1])
    keys = (K, ("call", ("attr", SELF, "_check_duplicate"), (K,), ()))
    und = ("attr", SELF, "_underlying")

    def under(e, cls: str) -> bool:
        return any(pol and t[0] == "call" and t[1] == ("name", "isinstance") and len(t[2]) == 2 and t[2][0] in keys
                   and t[2][1] == ("name", cls) for t, pol in flatten_conds(e.conds))
    rets = [e for e in it.events if e.kind == "return" and e.depth == 0]
    ints = [e for e in rets if under(e, "int")]
    ok = bool(ints) and all(e.term[0] == "sub" and e.term[1] == und and e.term[2] in keys for e in ints)
    ctx.ob("b.int-index", f, "int", ok, "v[int] -> self._underlying[key]", ints[0].node if ints else f.node,
           message=f"the integer branch of Vector.__getitem__ does not return self._underlying[{f.params[1]}]: "
                   + "; ".join(show(e.term, it)[:50] for e in ints[:2]))
    # slice branch
    problems = []
    sl = [e for e in rets if under(e, "slice")]
    if not sl:
        raise AnalysisError("Vector.__getitem__: slice branch not found")
    sites = {id(s_.ev): s_ for s_ in all_sites2(prog) if s_.top is f and s_.it is it and s_.kind == "copy"}
    for e in sl:
        site = next((s_ for s_ in sites.values() if s_.call == e.term), None)
        if not (site is not None and site.recv == SELF and site.data is not None and site.data[0] == "sub" and site.data[1] == und
                and site.data[2] in keys):
            problems.append(f"the slice branch returns `{show(e.term, it)[:70]}`, expected self.copy(self._underlying[{f.params[1]}], ...)")
    ctx.ob("b.slice-integrity", f, "slice-branch", not problems, "slice branch delegates to tuple slicing", sl[0].node,
           message="; ".join(problems))
    # R-FALSY in copy (and any function where a None-default parameter carries constructor data)
    g = prog.func("vector.Vector.copy")
    probs = _falsy_uses(prog, g)
    ctx.ob("b.slice-integrity", g, "falsy-default", not probs, "copy(new_values=None) selects its default with `is None`", g.node,
           message="; ".join(probs))


def _falsy_uses(prog, f: FuncInfo) -> List[str]:
    a = f.node.args
    names = [x.arg for x in a.posonlyargs + a.args]
    defaults = [None] * (len(names) - len(a.defaults)) + list(a.defaults)
    none_params = {n for n, d in zip(names, defaults) if isinstance(d, ast.Constant) and d.value is None}
    out = []
    for p in sorted(none_params):
        # does p carry data to a constructor / list() / tuple()?
        carries = any(isinstance(n, ast.Call) and isinstance(n.func, ast.Name) and n.func.id in ("Vector", "Table", "list", "tuple")
                      and any(isinstance(m, ast.Name) and m.id == p for x in n.args for m in ast.walk(x))
                      for n in walk_no_nested(f.node))
        for n in walk_no_nested(f.node):
            if isinstance(n, ast.BoolOp) and isinstance(n.op, ast.Or) and any(isinstance(v, ast.Name) and v.id == p for v in n.values):
                par = prog.parent(n)
                in_test = isinstance(par, (ast.If, ast.While, ast.IfExp)) and par.test is n or isinstance(par, ast.UnaryOp)
                if in_test:
                    continue
                out.append(f"`{short(n, 60)}` selects by the TRUTH VALUE of `{p}`: an empty sequence (an empty slice, an all-False "
                           f"mask) is falsy and would be replaced by the default")
            if carries and isinstance(n, (ast.IfExp, ast.If, ast.While)):
                t = n.test
                if (isinstance(t, ast.Name) and t.id == p) or (isinstance(t, ast.UnaryOp) and isinstance(t.op, ast.Not)
                                                               and isinstance(t.operand, ast.Name) and t.operand.id == p):
                    out.append(f"`{short(t)}` tests the TRUTH VALUE of `{p}` (line {n.lineno}): an empty sequence is falsy")
    return out


# ---------------------------------------------------------------------------------------------
def row_item_by_name_problems(prog):
    """(Row.__getitem__, problems of its string-key path): exact stored name first (first occurrence), then the accessor map, else
    SerifKeyError - shared by C07 (item forms) and C02 (row views agree with column views)."""
    from ..sites2 import interp_of as _iof
    from ..symx import flatten_conds, show, subterms
    rg = prog.func("table.Row.__getitem__")
    ri_ = _iof(prog, rg)
    RS_, RK_ = ("param", rg.params[0]), ("param", rg.params[1])
    rprobs = []
    is_str_path = lambda conds: any(pol and c[0] == "cmp" and c[1] in ("Is", "Eq") and ("name", "str") in (c[2], c[3])
                                    and any(x == RK_ for x in subterms(c)) for c, pol in flatten_conds(conds)) or \
        any(pol and c[0] == "call" and c[1] == ("name", "isinstance") and c[2] == (RK_, ("name", "str")) for c, pol in flatten_conds(conds))
    str_events = [e for e in ri_.events if is_str_path(e.conds)]
    # a name is any str, a subclass instance included (an enum.StrEnum member): `type(key) is str` sends it on to the vector indexing,
    # which knows no names, while t[key], t[rows, key] and t[i, key] = x find the column
    exact_type = [e for e in str_events if any(pol and c[0] == "cmp" and c[1] in ("Is", "Eq") and ("name", "str") in (c[2], c[3])
                                               for c, pol in flatten_conds(e.conds))]
    if exact_type:
        rprobs.append("the name path is entered only for `type(key) is str`: row[Col.QTY] with an enum.StrEnum member (or any str subclass) is "
                      "refused although table[Col.QTY] finds the column")
    if not str_events:
        rprobs.append("no branch for a string key")
    for e in str_events:
        if e.kind == "call" and e.term[1] == ("name", "getattr") and e.term[2][:1] == (RS_,):
            rprobs.append(f"a string key is resolved by `{show(e.term, ri_)[:40]}`: attributes, methods and private slots of the Row answer for "
                          f"column names (t[1, 'name'], t[1, 'sum']), and a column whose stored name is not its accessor is not found")
    srets = [e for e in str_events if e.kind == "return"]
    names_seq = ("attr", RS_, "_names")
    exact_first = False
    for e in srets:
        for x in subterms(e.term):
            if x[0] == "first" and x[1] in ri_.loops:
                lp_ = ri_.loops[x[1]]
                dom_ = lp_.domain if lp_.domain is not None else lp_.iter
                doms_ = list(dom_[1]) if dom_ is not None and dom_[0] == "tuple" else [dom_]
                if names_seq in doms_ or lp_.iter == ("call", ("name", "enumerate"), (names_seq,), ()):
                    found_ = [flatten_conds(c) for c in lp_.found]
                    if any(len(fc) == 1 and fc[0][1] and fc[0][0][0] == "cmp" and fc[0][0][1] == "Eq" and RK_ in (fc[0][0][2], fc[0][0][3])
                           for fc in found_):
                        exact_first = True
    # (the same scan written as next((i for i, name in enumerate(names) if name == key), None))
    for e in srets:
        for x in subterms(e.term):
            if x[0] == "call" and x[1] == ("name", "next") and len(x[2]) == 2 and x[2][0][0] == "obj" and x[2][1] == ("const", "NoneType", None):
                els_ = [ev for ev in ri_.events if ev.kind == "elem" and ev.term == x[2][0] and ev.loops]
                if len(els_) == 1:
                    lp_ = ri_.loops[els_[0].loops[-1]]
                    dom_ = lp_.domain if lp_.domain is not None else lp_.iter
                    doms_ = list(dom_[1]) if dom_ is not None and dom_[0] == "tuple" else [dom_]
                    if (names_seq in doms_ or lp_.iter == ("call", ("name", "enumerate"), (names_seq,), ())) and els_[0].value == ("idx", lp_.id):
                        fc_ = flatten_conds(els_[0].conds[len(lp_.conds):])
                        if len(fc_) == 1 and fc_[0][1] and fc_[0][0][0] == "cmp" and fc_[0][0][1] == "Eq" and RK_ in (fc_[0][0][2], fc_[0][0][3]):
                            exact_first = True
    # (the same first occurrence kept in a dict built once per Row: filled in column order by setdefault / under `not in`)
    last_wins = None
    if not exact_first:
        from ..symx import Interp as _RI, elements as _els
        init = prog.func("table.Row.__init__")
        ii = _RI(prog, init)
        IS_, IT_ = ("param", init.params[0]), ("param", init.params[1])
        cols_ = ("attr", IT_, "_underlying")
        for e in srets:
            for x in subterms(e.term):
                if x[0] == "call" and x[1][0] == "attr" and x[1][2] == "get" and x[2][:1] == (RK_,) and x[1][1][0] == "attr" \
                        and x[1][1][1] == RS_ and x[1][1][2] != "_column_map":
                    st_ = [ev for ev in ii.events if ev.kind == "store" and ev.term == ("attr", IS_, x[1][1][2])]
                    if len(st_) != 1 or st_[0].value[0] != "obj" or ii.objs[st_[0].value[1]].kind not in ("dict", "dictcomp"):
                        continue
                    d_ = st_[0].value
                    fills = _els(ii, d_)
                    ok_ = bool(fills) and not ii.objs[d_[1]].init
                    for ev in fills:
                        L_ = ev.loops[-1] if ev.loops else None
                        lp_ = ii.loops.get(L_) if L_ is not None else None
                        in_order = lp_ is not None and cols_ in (lp_.domain, lp_.iter) and \
                            lp_.iter in (cols_, ("call", ("name", "enumerate"), (cols_,), ()))
                        nm_ = ("attr", ("elem", cols_, L_), "_name")
                        if ev.kind == "call" and ev.term[1][2] == "setdefault" and in_order and ev.term[2] == (nm_, ("idx", L_)):
                            continue
                        if ev.kind == "store" and in_order and ev.term == ("sub", d_, nm_) and ev.value == ("idx", L_) and \
                                any((not pol) and c == ("cmp", "In", nm_, d_) or pol and c == ("cmp", "NotIn", nm_, d_)
                                    for c, pol in flatten_conds(ev.conds)):
                            continue
                        ok_ = False
                        if ev.kind == "elem" and in_order:
                            last_wins = x[1][1][2]
                    if ok_:
                        exact_first = True
    if srets and not exact_first and last_wins is not None:
        rprobs.append(f"the position of a stored name comes out of the dict `{last_wins}`, in which a repeated name keeps its LAST position: "
                      f"table[name] and t[i, name] = v use the first column of that name")
    elif srets and not exact_first:
        rprobs.append("the position is not looked up by the exact stored name (a scan of the row's name snapshot for `name == key`) first")
    if not any(e.kind == "raise" and e.term[0] == "call" and e.term[1][0] == "name" and "KeyError" in e.term[1][1] for e in str_events):
        rprobs.append("a column that does not exist is not an error (no SerifKeyError on the string path)")
    return rg, rprobs


def _mask(ctx) -> None:
    """Vector.__getitem__ with a mask / an index list, decided on the return events of the symx log: every `self.copy(...)` result
    is classified by what its data are (slice / mask / gather of self's own elements)."""
    from ..sites2 import comp_parts, same_elements_of
    from ..symx import Interp as SInterp
    from ..symx import flatten_conds, kw, show, show_conds, subterms
    prog = ctx.prog
    f = prog.func("vector.Vector.__getitem__")
    it = SInterp(prog, f)
    SELF = ("param", f.params[0])
    keyp = ("param", f.params[1])
    stor = ("attr", SELF, "_underlying")
    rets = [e for e in it.events if e.kind == "return" and e.depth == 0]
    masks, gathers, others = [], [], []
    for e in rets:
        t = e.term
        if not (t[0] == "call" and t[1] == ("attr", SELF, "copy") and t[2]):
            continue
        data = t[2][0]
        if data == ("tuple", ()):
            continue                     # the empty selection
        se = same_elements_of(it, data)
        cp = comp_parts(it, data)
        if se and se[0] == SELF and se[1] == "mask":
            masks.append((e, cp))
        elif se and se[0] == SELF and se[1] == "gather":
            gathers.append((e, cp))
        elif se and se[0] == SELF and se[1] in ("slice/index", "identity"):
            continue
        elif cp is not None and len(cp[0]) == 1 and it.loops[cp[0][0]].domain is not None and it.loops[cp[0][0]].domain[0] == "tuple":
            masks.append((e, cp))        # a zip-based selection that is not a clean mask: judged below
        else:
            others.append(e)
    if not masks or not gathers:
        raise AnalysisError(f"Vector.__getitem__: expected mask and index-list results, found {len(masks)} mask / {len(gathers)} index-list "
                            f"result(s)")
    ln_self = ("call", ("name", "len"), (SELF,), ())
    for i, (e, cp) in enumerate(masks):
        problems = []
        (L,), extra, v, ev = cp
        lp = it.loops[L]
        doms = lp.domain[1] if lp.domain is not None and lp.domain[0] == "tuple" else ()
        strict = lp.iter is not None and lp.iter[0] == "call" and dict(lp.iter[3]).get("strict") == ("const", "bool", True)
        if not (len(doms) == 2 and doms[0] in (SELF, stor) and any(x == keyp for x in subterms(doms[1])) and strict):
            problems.append(f"mask pairs `{show(lp.iter, it)[:50]}`, expected zip(self, {f.params[1]}, strict=True)")
        else:
            x, y = ("elem", doms[0], L), ("elem", doms[1], L)
            if v != x or flatten_conds(extra) != [(y, True)]:
                problems.append(f"the mask keeps `{show(v, it)[:40]}` where `{show_conds(extra, it)[:50]}`; expected the element of self where "
                                f"the mask element is true")
            guard = [c for c in flatten_conds(e.conds) if c[0][0] == "cmp" and c[0][1] == "Eq" and ln_self in (c[0][2], c[0][3]) and c[1]
                     and ("call", ("name", "len"), (doms[1],), ()) in (c[0][2], c[0][3])]
            if not guard:
                problems.append("no length guard `len(self) != len(key)` before the mask is applied")
        if kw(e.term, "name") != ("attr", SELF, "_name"):
            problems.append("the masked result does not keep self's name")
        ctx.ob("c.mask", f, f"mask:{i + 1}", not problems, "mask keeps exactly the true positions, in order, dtype and name kept", e.node,
               message="; ".join(problems))
    for i, (e, cp) in enumerate(gathers):
        problems = []
        (L,), extra, v, ev = cp
        lp = it.loops[L]
        if not (lp.iter is not None and any(x == keyp for x in subterms(lp.iter)) and not extra and v[0] == "sub" and v[1] in (SELF, stor)
                and v[2] == ("elem", lp.iter, L)):
            problems.append(f"index branch returns `{show(e.term, it)[:70]}`, expected self.copy((self[x] for x in {f.params[1]}), name=self._name)")
        elif kw(e.term, "name") != ("attr", SELF, "_name"):
            problems.append("the gathered result does not keep self's name")
        ctx.ob("c.index-list", f, f"gather:{i + 1}", not problems, "index list gathers self[x] in key order", e.node, message="; ".join(problems))
    for e in others:
        ctx.ob("c.index-list", f, f"other:{getattr(e.node, 'lineno', 0) - f.lineno}", False, "", e.node,
               message=f"Vector.__getitem__ returns `{show(e.term, it)[:70]}`: a copy whose data are neither a slice, a mask nor an index "
                       f"gather of self's own elements")
    raises = [e for e in it.events if e.kind == "raise" and e.depth == 0 and not e.loops and e.term[0] == "call"
              and e.term[1] == ("name", "SerifTypeError")]
    ok = not it.falls_through and bool(raises) and not any(e.term == ("const", "NoneType", None) for e in rets)
    # the Table sibling: same discipline, plus a row position outside the table is an IndexError before a Row is made
    from ..sites2 import interp_of as _iof
    from .c08 import _compatible
    tg = prog.func("table.Table.__getitem__")
    ti = _iof(prog, tg)
    t_rets = [e for e in ti.events if e.kind == "return" and e.depth == 0]
    t_raises = [e for e in ti.events if e.kind == "raise" and not e.loops and e.term[0] == "call" and e.term[1] == ("name", "SerifTypeError")]
    okt = not ti.falls_through and bool(t_raises) and not any(e.term == ("const", "NoneType", None) for e in t_rets)
    ctx.ob("d.dispatch-exhaustive", tg, "final-raise", okt, "unsupported key types raise SerifTypeError", tg.node,
           message="Table.__getitem__ can fall off the end (or return None) for a key it does not support: t[[0, 1]], t[1.5] or a nullable "
                   "mask silently give None instead of an error")
    rows_ = [e for e in t_rets if e.term[0] == "call" and e.term[1] == ("name", "Row")]
    idx_err = [e for e in ti.events if e.kind == "raise" and e.term[0] == "call" and e.term[1] == ("name", "IndexError")]
    TSELF, TKEY = ("param", tg.params[0]), ("param", tg.params[1])
    ln = ("call", ("name", "len"), (TSELF,), ())
    bounded = bool(rows_) and all(
        any(not _compatible(r.conds, x.conds) and any(ln == y or y == ("attr", TSELF, "_length") for c, _ in x.conds[-1:] for y in subterms(c))
            and any(any(k == y for y in subterms(c)) for c, _ in x.conds[-1:] for k in (TKEY, ("call", ("attr", TSELF, "_check_duplicate"), (TKEY,), ())))
            for x in idx_err) for r in rows_)
    ctx.ob("d.dispatch-exhaustive", tg, "row-bounds", bounded, "t[i]: IndexError unless -len(t) <= i < len(t), before Row(self, i)", tg.node,
           message="Table.__getitem__(int) makes Row(self, key) without comparing the position with the row count: t[99] returns a hollow Row "
                   "that only fails when a cell is read")
    exact_probs = row_bounds_exact(prog)
    if exact_probs is None:
        raise AnalysisError("Table.__getitem__: the row-bounds condition is outside the integer-comparison fragment")
    ctx.ob("d.dispatch-exhaustive", tg, "row-bounds-exact", bool(idx_err) and not exact_probs,
           "the IndexError condition is exactly `not -len(t) <= i < len(t)` (evaluated for len 3, i in -5..5)", tg.node,
           message="Table.__getitem__(int): the row position is compared with the wrong bounds: " + "; ".join(exact_probs[:3]))
    # an operand that IS the receiver (t == t, v[v]) is duplicated with copy(), never with copy.deepcopy (deepcopy of a Table
    # probes the half-built copy through Table.__getattr__ and never terminates)
    cd = prog.func("vector.Vector._check_duplicate")
    ci = _iof(prog, cd)
    CO = ("param", cd.params[1])
    from ..sites2 import leaves as _cd_leaves
    bad_dup = [show(x_, ci)[:40] for e in ci.events if e.kind == "return" and e.depth == 0 for x_ in _cd_leaves(e.term)
               if x_ not in (CO, ("call", ("attr", CO, "copy"), (), ()))]
    ctx.ob("d.dispatch-exhaustive", cd, "self-operand", not bad_dup, "_check_duplicate returns the operand or operand.copy()", cd.node,
           message=f"_check_duplicate returns {bad_dup}: copy.deepcopy (or anything but .copy()) of an operand that is a Table does not terminate "
                   f"- t == t would raise RecursionError")
    ctx.ob("d.dispatch-exhaustive", f, "final-raise", ok, "unsupported key types raise SerifTypeError", f.node,
           message="Vector.__getitem__ can fall off its end (or return None) for an unsupported key type instead of raising SerifTypeError")
    # table comparisons: the operand is paired column by column only when it is itself two-dimensional (a plain vector has one
    # element per ROW, like a list); in the row-wise form a None entry makes its whole row False (C06), it is not compared as a scalar
    tc = prog.func("table.Table._elementwise_compare")
    ci2 = _iof(prog, tc)
    CS, CO2 = ("param", tc.params[0]), ("param", tc.params[1])
    oth = (CO2, ("call", ("attr", CS, "_check_duplicate"), (CO2,), ()))
    col_pair = row_pair = 0
    tprobs = []
    from types import SimpleNamespace as _NS
    elem_like = []
    for e in ci2.events:                  # (elements of a comprehension, and items appended by an explicit loop)
        if e.kind == "elem" and e.loops:
            elem_like.append(e)
        elif e.kind == "call" and e.loops and e.term[1][0] == "attr" and e.term[1][2] == "append" and e.term[1][1][0] == "obj" \
                and len(e.term[2]) == 1:
            elem_like.append(_NS(kind="elem", loops=e.loops, conds=e.conds, value=e.term[2][0], node=e.node, term=e.term[1][1]))
    for e in elem_like:
        lp = ci2.loops[e.loops[-1]]
        if lp.domain is None or lp.domain[0] != "tuple" or len(lp.domain[1]) != 2:
            continue
        d0, d1 = lp.domain[1]
        fc = [c for c, pol in flatten_conds(e.conds) if pol]
        if d1[0] == "call" and d1[1][0] == "attr" and d1[1][2] == "cols" and d1[1][1] in oth:
            col_pair += 1
            two_d = any((c[0] == "cmp" and c[1] == "Eq" and ("const", "int", 2) in (c[2], c[3])
                         and any(x[0] == "call" and x[1][0] == "attr" and x[1][2] == "ndims" and x[1][1] in oth for x in (c[2], c[3])))
                        or (c[0] == "call" and c[1] == ("name", "isinstance") and c[2][0] in oth and c[2][1] == ("name", "Table")) for c in fc)
            if not two_d:
                tprobs.append("the operand's .cols() are zipped with the table's columns although the operand may be a plain vector (its "
                              ".cols() are its ELEMENTS): t == v differs from v == t and t == list(v), t < v raises 'Column count mismatch'")
        elif d0 == CS and d1 in oth:
            row_pair += 1
            # with no rows the row-by-row build (transposed afterwards) yields nothing - not the table of empty boolean columns: the
            # row-wise form runs only for a table that has rows
            lnS = ("call", ("name", "len"), (CS,), ())
            if not any(c[0] == "cmp" and c[1] == "Eq" and {c[2], c[3]} == {lnS, ("const", "int", 0)} and not pol
                       for c, pol in flatten_conds(e.conds)):
                tprobs.append("a table without rows compared with a sequence is built row by row: the result is an untyped empty vector, "
                              "not the table of empty boolean columns that t0 == 1 gives")
            y = ("elem", d1, lp.id)
            guarded = any(x[0] == "cmp" and x[1] in ("Is", "IsNot") and y in (x[2], x[3]) and ("const", "NoneType", None) in (x[2], x[3])
                          for x in list(subterms(e.value)) + [c for c, _ in flatten_conds(e.conds[len(lp.conds):])])
            if not guarded:
                tprobs.append("in the row-wise form a None entry of the sequence is compared with the row as a scalar: t != [None, 2] is True "
                              "in the None row where column != sequence is False")
            else:
                # the all-False row standing in for a None entry has one cell per COLUMN (it is transposed with the other rows)
                widths = (("call", ("name", "len"), (("call", ("attr", CS, "cols"), (), ()),), ()),
                          ("call", ("name", "len"), (("attr", CS, "_underlying"),), ()))
                from ..symx import deep_subterms as _deep2
                for x in _deep2(ci2, e.value):
                    if x[0] == "bin" and x[1] == "Mult":
                        for lst, k_ in ((x[2], x[3]), (x[3], x[2])):
                            if lst[0] == "obj" and ci2.objs[lst[1]].kind == "list" and ci2.objs[lst[1]].init == (("const", "bool", False),):
                                if k_ not in widths:
                                    tprobs.append(f"the all-False row standing in for a None entry has `{show(k_, ci2)[:40]}` cells, not one per "
                                                  f"column: on a table whose row count differs from its column count the result is not a "
                                                  f"table of boolean columns")
    ctx.ob("d.dispatch-exhaustive", tc, "table-compare-forms", not tprobs and col_pair >= 1 and row_pair >= 1,
           f"{col_pair} column-wise form(s) guarded by 2-D-ness, {row_pair} row-wise form(s) keeping None rows False", tc.node,
           message="Table._elementwise_compare: " + ("; ".join(tprobs) or "column-wise / row-wise forms not found"))
    # row['name'] (and so t[i, 'name']) names a COLUMN of the table: the cell comes out of the row's column snapshot at a position found
    # by the exact stored name first, then the accessor map - never through getattr on the Row (methods, properties and private slots
    # of the Row would answer, and the lower-cased accessor map alone would send 'A' to column 'a'); a missing column raises
    rg, rprobs = row_item_by_name_problems(prog)
    ctx.ob("d.dispatch-exhaustive", rg, "row-item-by-name", not rprobs, "row[name]: exact stored name, then accessor map, else SerifKeyError",
           rg.node, message="Row.__getitem__: " + "; ".join(rprobs[:2]))
    # one name and a tuple of names are resolved by the same forms (exact stored name; accessor name; <accessor>__<position>;
    # col<position>_): t['col_a'] and t['col_a',] find the same column
    single, multi = _name_forms(prog)
    ctx.ob("d.dispatch-exhaustive", tg, "name-forms-agree", single == multi and bool(single),
           f"single-name and multi-name selection accept the same {len(single)} name forms", tg.node,
           message="Table.__getitem__: a name in a tuple of names is matched by other forms than a single name: "
                   f"only single: {sorted(map(str, single - multi))[:2]}; only multi: {sorted(map(str, multi - single))[:2]} - "
                   "t['col_a'] works while t['col_a',] raises SerifKeyError (or the reverse)")
    # a mask of the wrong length raises (a real raise: an assert vanishes under python -O)
    from ..sites2 import all_sites2
    from ..symx import deep_subterms as _deep
    from ..symx import flatten_conds
    masks = []
    for st in all_sites2(prog):
        if st.top is tg and st.kind == "Vector" and st.data is not None:
            keyt = None
            for x in _deep(st.it, st.data):
                if x[0] == "sub" and x[1][0] == "elem" and x[1][1] == ("attr", TSELF, "_underlying"):
                    keyt = x[2]
            if keyt is None:
                continue
            conds = [x for c, pol in flatten_conds(st.ev.conds) if pol for x in subterms(c)]      # (also inside an `or` of two mask forms)
            is_mask = any(c[0] == "cmp" and c[1] == "Eq" and any(y == ("name", "bool") for y in subterms(c)) for c in conds)
            if is_mask:
                masks.append((st, keyt))
    bad_masks = []
    for st, keyt in masks:
        lk = ("call", ("name", "len"), (keyt,), ())
        guarded = any(e.kind == "raise" and e.term[0] == "call" and e.term[1][0] == "name" and e.term[1][1] != "AssertionError"
                      and e.conds and e.conds[-1][0][0] == "cmp" and lk in (e.conds[-1][0][2], e.conds[-1][0][3])
                      and ln in (e.conds[-1][0][2], e.conds[-1][0][3])
                      and tuple(st.ev.conds[:len(e.conds) - 1]) == tuple(e.conds[:-1])                  # same branch ...
                      and (e.conds[-1][0], not e.conds[-1][1]) in st.ev.conds[len(e.conds) - 1:]        # ... the selection on its other side
                      for e in ti.events)
        if not guarded:
            bad_masks.append(st)
    ctx.ob("d.dispatch-exhaustive", tg, "mask-length", bool(masks) and not bad_masks,
           f"{len(masks)} table mask selections, each after a raising length comparison", (bad_masks[0].node if bad_masks else tg.node),
           message="Table.__getitem__: a boolean mask is applied without a RAISING comparison of its length with the row count (an assert is "
                   "not one: bare AssertionError, and no check at all under python -O)")


def certainly_raised_for_empty_list(prog, q, self_len=None, errors=("TypeError",), key_kind="list"):
    """(number of raises judged, the raise events of `q` (a __getitem__ / __setitem__) whose path conditions are ALL definitely true
    under key = [] - three-valued evaluation; `self_len` optionally fixes len(self))"""
    from ..sites2 import interp_of as _iof
    from ..symx import flatten_conds
    f = prog.func(q)
    it = _iof(prog, f)
    KEY = ("param", f.params[1])
    SELF = ("param", f.params[0])
    keys = {KEY, ("call", ("attr", SELF, "_check_duplicate"), (KEY,), ())}
    selfs = {SELF, ("attr", SELF, "_underlying")}
    LISTY = {"list", "Iterable", "Sequence", "Sized", "Collection", "Container", "Reversible", "MutableSequence", "object"}
    if key_kind in ("untyped-vector", "typed-bool-vector"):   # Vector([]) without a dtype / Vector([], dtype=bool): no elements
        LISTY = {"Vector", "Iterable", "Sized", "Collection", "Container", "object"}
    NONE_T = ("const", "NoneType", None)

    def is_key_schema(t):
        return (t[0] == "call" and t[1][0] == "attr" and t[1][2] == "schema" and not t[2] and t[1][1] in keys) or \
               (t[0] == "attr" and t[2] == "_dtype" and t[1] in keys)

    def val(t):
        """abstract value: ('coll', frozenset|tuple) for a known collection, ('k', python value), or None (unknown)"""
        if t in keys or (t[0] == "attr" and t[2] == "_underlying" and t[1] in keys):
            return ("coll", ())
        if t[0] == "ifexp":                      # (a rebound key: key = () if <it addresses nothing> else key)
            r = truth(t[1])
            if r is None:
                a_, b_ = val(t[2]), val(t[3])
                return a_ if a_ == b_ else None
            return val(t[2] if r else t[3])
        if t[0] == "tuple":
            return ("coll", tuple(t[1])) if not t[1] else None
        if t[0] == "const":
            return ("k", t[2])
        if t[0] == "obj" and t[1] in it.objs:
            o = it.objs[t[1]]
            if o.kind in ("setcomp", "listcomp", "genexp"):
                own = [e for e in it.events if e.kind == "elem" and e.term == t and e.loops]
                if own and all((it.loops[e.loops[-1]].iter in keys or val(it.loops[e.loops[-1]].iter) == ("coll", ()))
                               and len(e.loops) == len(o.loops) + 1 for e in own):
                    return ("coll", frozenset() if o.kind == "setcomp" else ())        # it iterates the key: no element
                return None
            if o.kind == "set" and o.init and all(x[0] == "name" for x in o.init):
                return ("coll", frozenset(x[1] for x in o.init))
            if o.kind in ("list", "set") and not o.init:
                return ("coll", frozenset() if o.kind == "set" else ())
        if t[0] == "call" and t[1] == ("name", "len") and len(t[2]) == 1:
            if t[2][0] in selfs and self_len is not None:
                return ("k", self_len)
            v = val(t[2][0])
            return ("k", len(v[1])) if v and v[0] == "coll" else None
        if t[0] == "call" and t[1] in (("name", "set"), ("name", "frozenset")) and len(t[2]) == 1:
            v = val(t[2][0])
            return ("coll", frozenset(v[1])) if v and v[0] == "coll" else None
        return None

    def truth(t):
        if t[0] == "call" and t[1] == ("name", "isinstance") and len(t[2]) == 2 and (t[2][0] in keys or t[2][0][0] in ("ifexp", "tuple")):
            ts = t[2][1]
            names = [x[1] for x in (ts[1] if ts[0] == "tuple" else (ts,)) if x[0] == "name"]
            n_all = len(ts[1]) if ts[0] == "tuple" else 1
            kinds = LISTY
            if t[2][0] not in keys:
                x = t[2][0]
                while x[0] == "ifexp":
                    r = truth(x[1])
                    if r is None:
                        return None
                    x = x[2] if r else x[3]
                if x[0] == "tuple":
                    kinds = (LISTY - {"list", "MutableSequence"}) | {"tuple"}
                elif x not in keys:
                    return None
            if any(n in kinds for n in names):
                return True
            return False if len(names) == n_all else None
        if t[0] == "un" and t[1] == "Not":
            r = truth(t[2])
            return None if r is None else not r
        if t[0] == "bool":
            rs = []
            for x in t[2]:
                r = truth(x)
                rs.append(r)
                if (t[1] == "and" and r is False) or (t[1] == "or" and r is True):
                    break                      # (short circuit: what follows is not evaluated)
            if t[1] == "and":
                return False if False in rs else (None if None in rs else True)
            return True if True in rs else (None if None in rs else False)
        if t[0] == "call" and t[1] in (("name", "all"), ("name", "any")) and len(t[2]) == 1:
            v = val(t[2][0])
            if v and v[0] == "coll" and not v[1]:
                return t[1][1] == "all"
            return None
        if key_kind == "untyped-vector" and t[0] == "cmp" and t[1] in ("Is", "IsNot") and is_key_schema(t[2]) and t[3] == NONE_T:
            return t[1] == "Is"
        if key_kind == "untyped-vector" and is_key_schema(t):
            return False                       # (truth value of the missing dtype)
        if key_kind == "typed-bool-vector":
            if t[0] == "cmp" and t[1] in ("Is", "IsNot") and is_key_schema(t[2]) and t[3] == NONE_T:
                return t[1] == "IsNot"
            if is_key_schema(t):
                return True
            if t[0] == "cmp" and t[1] in ("Eq", "Is", "NotEq", "IsNot") and t[2][0] == "attr" and t[2][2] == "kind" and is_key_schema(t[2][1]) \
                    and t[3][0] == "name":
                return (t[3][1] == "bool") == (t[1] in ("Eq", "Is"))
            if t[0] == "attr" and t[2] == "nullable" and is_key_schema(t[1]):
                return False
        if t[0] == "cmp":
            a_, b_ = val(t[2]), val(t[3])
            if a_ is None or b_ is None:
                return None
            try:
                x, y = a_[1], b_[1]
                return {"Eq": lambda: x == y, "NotEq": lambda: x != y, "LtE": lambda: x <= y, "Lt": lambda: x < y,
                        "GtE": lambda: x >= y, "Gt": lambda: x > y}.get(t[1], lambda: None)()
            except TypeError:
                return None
        v = val(t)
        if v is not None:
            return bool(v[1])
        return None

    refused = []
    n_r = 0
    for e in it.events:
        if e.kind != "raise" or e.term[0] != "call" or e.term[1][0] != "name" or not any(x in e.term[1][1] for x in errors):
            continue
        n_r += 1
        fc = flatten_conds(e.conds)
        if fc and all(truth(c) is pol for c, pol in fc):
            refused.append(e)
    return n_r, refused


def _mapping_is_one_operand(ctx) -> None:
    """`computed elementwise by Python's own comparison`: a mapping operand is ONE value (an int never equals a dict) - iterated, its KEYS
    would be paired with the elements.  Sibling agreement over the kernels (serifscan/onecell.py): every one-operand-or-sequence test of
    a comparison kernel, of the arithmetic kernel and of the reflected addition exempts Mapping."""
    from ..onecell import sites
    ss = [s_ for s_ in sites(ctx.prog) if s_[0].split(".")[-1] in ("_elementwise_compare", "_elementwise_operation", "__radd__")]
    bad = [s_ for s_ in ss if "Mapping" not in s_[2]]
    f = ctx.prog.func("vector.Vector._elementwise_compare")
    ctx.ob("a.compare-kernels", f, "mapping-is-one-operand", len(ss) >= 3 and not bad,
           f"{len(ss)} operand tests of the comparison / arithmetic kernels, each taking a mapping for one value", f.node,
           message="; ".join(f"{q} (line {ln}) pairs a mapping operand with the elements by its KEYS: Vector([1, 2]) == {{1: 'x', 2: 'y'}} gives "
                             f"[True, True] where Python compares an int with a dict (False)" for q, ln, _n, _ok in bad[:2]))


def _empty_list_mask(ctx) -> None:
    """[] is the mask of length 0: v[[]] / t[[]] on an empty vector / table is a selection like v[Vector([], dtype=bool)] (the list a
    comprehension over an empty column builds), not a key of an unsupported type.  Decided by evaluating the path conditions of every
    raise of a *TypeError under key = [] (three-valued; a raise counts only if ALL its conditions are definitely true).  On a vector
    [] is also the index list of no position: for a vector of 3 it does not certainly reach the mask-length refusal either."""
    prog = ctx.prog
    for q in ("vector.Vector.__getitem__", "table.Table.__getitem__"):
        f = prog.func(q)
        n_r, refused, which = 0, [], []
        # (on tables the same row selection is applied to every column alike: what every column accepts - the empty list, the
        #  untyped empty vector Vector([]) a mask / index vector computed from no rows comes out as - the table accepts too)
        for kind in ("list", "untyped-vector", "typed-bool-vector"):
            for n_self in ((0,) if kind == "typed-bool-vector" else (0, 3)):      # (Vector([], dtype=bool): the mask of an empty vector / table)
                n2, r2 = certainly_raised_for_empty_list(prog, q, self_len=n_self, errors=("TypeError", "ValueError"), key_kind=kind)
                n_r, refused = n_r + n2, refused + r2
                if r2 and not which:
                    which.append({"list": "the empty list []", "untyped-vector": "the untyped empty vector Vector([])",
                                  "typed-bool-vector": "the empty boolean mask Vector([], dtype=bool) (what a comparison on empty data returns)"}[kind]
                                 + f" on a {'vector' if q.startswith('vector.') else 'table'} of {n_self} row(s)")
        ctx.ob("d.dispatch-exhaustive", f, "empty-list-mask", not refused,
               f"{n_r} raise(s) judged, none certainly reached by key = []", (refused[0].node if refused else f.node),
               message=f"{q}: {which[0] if which else 'an empty key'} certainly reaches a refusal (line {getattr(refused[0].node, 'lineno', 0) if refused else 0}): a list "
                       f"is taken for a mask only when the set of its element types EQUALS {{bool}}, which [] does not (mask = [x > 0 for x in "
                       f"col]; col[mask] raises SerifTypeError exactly when col is empty), or [] - the index list of no position - is refused "
                       f"as a mask of the wrong length on a non-empty vector")


# ---------------------------------------------------------------------------------------------
def _missing(ctx) -> None:
    prog = ctx.prog
    n_raises = 0
    for q in ("table.Table.__getitem__", "vector.Vector.__getitem__", "table.Row.__getitem__", "table.Table._resolve_column"):
        f = prog.func(q)
        cfg = cfg_of(f)
        for n in cfg.stmt_nodes():
            if isinstance(n.ast, ast.Raise):
                n_raises += 1
                ctx.ob("d.dead-raise", f, f"raise:{short(n.ast, 40)}", cfg.is_reachable(n), "reachable", n.ast,
                       message=f"`{short(n.ast, 70)}` (line {n.lineno}) can never execute: the rejection it expresses is not enforced "
                               f"(unreachable code, e.g. nested after a break/return)")
    # package-wide dead raises: INFO
    for q, f in prog.functions.items():
        if isinstance(f.node, ast.Lambda) or q.startswith(("table.Table.__getitem__", "vector.Vector.__getitem__")):
            continue
        cfg = cfg_of(f)
        for n in cfg.stmt_nodes():
            if isinstance(n.ast, ast.Raise) and not cfg.is_reachable(n):
                ctx.info(f"unreachable raise outside the indexing code: {q} line {n.lineno}: {short(n.ast, 60)}")
    # multi-name branch
    f = prog.func("table.Table.__getitem__")
    key = f.params[1]
    cfg = cfg_of(f)
    multi = None
    for s in f.body:
        if isinstance(s, ast.If) and f"isinstance({key}, tuple)" in short(s.test) and "str" in short(s.test):
            multi = s
            break
    if multi is None:
        raise AnalysisError("Table.__getitem__: multi-name branch not found")
    loops = [s for s in multi.body if isinstance(s, ast.For) and short(s.iter) == key]
    if len(loops) != 1:
        raise AnalysisError("Table.__getitem__: loop over the requested names not found")
    lp = loops[0]
    hdr = cfg.node_of(lp)
    d = Defs(f)
    result_lists = {n.func.value.id for n in walk_no_nested(lp) if isinstance(n, ast.Call) and isinstance(n.func, ast.Attribute)
                    and n.func.attr == "append" and isinstance(n.func.value, ast.Name)}
    flags = {name for name, lst in d.assigns.items()
             if lst and all(how == "assign" and isinstance(v, ast.Constant) and isinstance(v.value, bool) for v, _, how in lst)}

    def is_append(n) -> bool:
        st = n.ast
        return n.kind == "stmt" and isinstance(st, ast.Expr) and isinstance(st.value, ast.Call) \
            and isinstance(st.value.func, ast.Attribute) and st.value.func.attr == "append" \
            and isinstance(st.value.func.value, ast.Name) and st.value.func.value.id in result_lists

    starts = [(hdr, s) for s, lab in hdr.succ if lab == "iter"]
    path = flag_paths(cfg, starts, [hdr], lambda n: is_append(n) or isinstance(n.ast, ast.Raise), flags)
    ctx.ob("d.must-append", f, "iteration", path is None,
           f"every feasible path through one iteration appends to {sorted(result_lists)} or raises (flags tracked: {sorted(flags)})", lp,
           message="a requested name can be skipped silently: the iteration can reach the next name without appending a column "
                   "or raising - witness: " + (cfg.fmt_path(path) if path else ""),
           witness=cfg.fmt_path(path) if path else "")
    # the result table is built from exactly that list and the loop cannot be left early
    early = [s for s in walk_stmts(lp.body) if isinstance(s, (ast.Return,))]
    brk = []
    for s in lp.body:
        if isinstance(s, ast.Break):
            brk.append(s)
    # exact scan first, per name: decided on the symx event log (append-in-scan-loop and search-then-append forms alike)
    probs = [p_ for p_ in multi_name_exact_first(prog)]
    probs += [f"the loop over the requested names can be left early by `{short(s, 40)}`" for s in early + brk]
    ctx.ob("d.must-append", f, "exact-first", not probs, "per requested name the exact stored-name scan comes first and yields a copy", lp,
           message="; ".join(p if isinstance(p, str) else p[0] for p in probs))


def _untyped_empty(ctx) -> None:
    from ..nulldtype import analyse, facts_from
    from ..symx import Interp as SInterp
    from ..symx import subterms
    prog = ctx.prog
    n_sites, flagged = analyse(prog)
    by_func = {}
    for q, line, txt, node in flagged:
        by_func.setdefault(q, []).append((line, txt, node))
    judged = 0
    for q, items in sorted(by_func.items()):
        f = prog.functions[q]
        why_ok = None
        only_self = all(txt in ("self._dtype", "self.schema()") for _, txt, _n in items)
        # (a) only inside the handler of a TypeError that an operation on an ELEMENT raised (the message of the SerifTypeError raised
        #     there): an element exists, so the vector is typed
        fi = SInterp(prog, f)
        FS = ("param", f.params[0]) if f.params else None
        uses = [e for e in fi.events if any(x in (("attr", FS, "_dtype"), ("call", ("attr", FS, "schema"), (), ())) for t_ in (e.term, e.value)
                                            if t_ is not None for x in subterms(t_))]
        in_handler = lambda e: any(pol and c[0] == "call" and c[1] == ("name", "<except>") and c[2] and c[2][0] == ("name", "TypeError")
                                   for c, pol in e.conds)
        if only_self and uses and all(in_handler(e) for e in uses if e.kind in ("raise", "call") and e.term[0] == "call"
                                      and e.term[1] == ("name", "SerifTypeError")) \
                and any(e.kind == "raise" and in_handler(e) for e in uses):
            unguarded_outside = [e for e in uses if not in_handler(e) and not any(
                pol is not None and x[0] == "cmp" and x[1] in ("Is", "IsNot") for c, pol in e.conds for x in [c])]
            if all(in_handler(e) or getattr(e.node, "lineno", 0) != items[0][0] for e in uses):
                why_ok = "only in the message of the SerifTypeError raised in the handler of a TypeError from an element operation (an element exists: typed)"
        if why_ok is None and only_self and f.name.startswith("_") and not f.name.startswith("__"):
            # a private method relying on `self` being typed: every call site in the package must know that of its receiver
            sites = []
            for g in prog.functions.values():
                if isinstance(g.node, ast.Lambda) or g.parent is not None:
                    continue
                if not any(isinstance(n, ast.Attribute) and n.attr == f.name for n in ast.walk(g.node)):
                    continue
                gi = SInterp(prog, g)
                for e in gi.events:
                    if e.kind == "call" and e.term[1][0] == "attr" and e.term[1][2] == f.name:
                        recv = e.term[1][1]
                        known = set()
                        GS = ("param", g.params[0]) if g.params else None
                        if g.cls in ("_Int", "_Float", "_String", "_Date") and GS is not None:
                            known |= {("attr", GS, "_dtype"), ("call", ("attr", GS, "schema"), (), ())}
                        for c, pol in e.conds:
                            facts_from(c, pol, known)
                        # a receiver built in this function with a dtype that is known non-None counts too
                        base_recv = recv
                        while base_recv[0] == "call" and base_recv[1][0] == "attr" and base_recv[1][2] == "copy":
                            base_recv = base_recv[1][1]            # a copy of a typed vector is typed (copy() hands the dtype on)
                        ok_site = any(("attr", r_, "_dtype") in known or ("call", ("attr", r_, "schema"), (), ()) in known
                                      for r_ in (recv, base_recv))
                        if not ok_site and recv[0] == "call" and recv[1] in (("name", "Vector"),):
                            from ..symx import kw as _kw
                            dtv = _kw(recv, "dtype")
                            ok_site = dtv is not None and (dtv in known or dtv[0] == "call")
                        sites.append((g.qualname, getattr(e.node, "lineno", 0), ok_site))
            if not sites:
                why_ok = "never called in the package (dead code)"
            elif all(ok for _, _, ok in sites):
                why_ok = f"private; all {len(sites)} call site(s) hold a typed receiver"
            else:
                bad = [f"{g}:{ln}" for g, ln, ok in sites if not ok]
                items = [(items[0][0], items[0][1] + f" (called with a possibly untyped receiver at {bad[:2]})", items[0][2])]
        judged += 1
        ctx.ob("f.untyped-empty", f, "dereferences", why_ok is not None, why_ok or "", items[0][2],
               message=f"{q} (line {items[0][0]}) dereferences `{items[0][1]}` while it can be None (an untyped empty vector / a column built "
                       f"from no data): AttributeError 'NoneType' object has no attribute ... for Vector([]) / Table({{'a': []}})")
    ctx.ob("f.untyped-empty", "package", "all-sites", n_sites >= 40 and not [1 for q in by_func if q not in
           ("vector.Vector._check_native_typesafe", "vector.Vector._elementwise_operation", "vector.Vector._promote")] or judged == len(by_func),
           f"{n_sites} dtype dereference sites analysed, {len(flagged)} rely on a fact outside the function (each judged above)", None,
           message="the dtype-nullness analysis found too few dereference sites to be meaningful")


def row_bounds_exact(prog):
    """problems of Table.__getitem__(int)'s IndexError condition against `not -len(t) <= i < len(t)` (None: not decidable here)"""
    from ..sites2 import interp_of as _iof
    from ..symx import subterms
    tg = prog.func("table.Table.__getitem__")
    ti = _iof(prog, tg)
    TSELF, TKEY = ("param", tg.params[0]), ("param", tg.params[1])
    ln = ("call", ("name", "len"), (TSELF,), ())
    idx_err = [e for e in ti.events if e.kind == "raise" and e.term[0] == "call" and e.term[1] == ("name", "IndexError")]
    if not idx_err:
        return ["no IndexError is raised for a row position outside the table"]
    # ... and the comparison is EXACT: evaluated for a table of 3 rows, the IndexError is raised for the positions -5..5 outside
    # [-3, 3) and for no other (t[-len(t)] is the first row, t[len(t)] does not exist)
    def ev_int(t, env):
        if t in env:
            return env[t]
        if t[0] == "const" and isinstance(t[2], int):
            return t[2]
        if t[0] == "un" and t[1] == "USub":
            v = ev_int(t[2], env)
            return None if v is None else -v
        if t[0] == "bin" and t[1] in ("Add", "Sub"):
            a_, b_ = ev_int(t[2], env), ev_int(t[3], env)
            return None if a_ is None or b_ is None else (a_ + b_ if t[1] == "Add" else a_ - b_)
        return None

    def ev_bool(t, env):
        if t[0] == "bool":
            vs = [ev_bool(x, env) for x in t[2]]
            if any(v is None for v in vs):
                return None
            return all(vs) if t[1] == "and" else any(vs)
        if t[0] == "un" and t[1] == "Not":
            v = ev_bool(t[2], env)
            return None if v is None else not v
        if t[0] == "cmp" and t[1] in ("Lt", "LtE", "Gt", "GtE", "Eq", "NotEq"):
            a_, b_ = ev_int(t[2], env), ev_int(t[3], env)
            if a_ is None or b_ is None:
                return None
            return {"Lt": a_ < b_, "LtE": a_ <= b_, "Gt": a_ > b_, "GtE": a_ >= b_, "Eq": a_ == b_, "NotEq": a_ != b_}[t[1]]
        return None
    exact_probs = []
    keys_ = (TKEY, ("call", ("attr", TSELF, "_check_duplicate"), (TKEY,), ()))
    for x in idx_err:
        if not x.conds:
            continue
        c, pol = x.conds[-1]
        if not any(any(k == y for y in subterms(c)) for k in keys_):
            continue
        for kv in range(-5, 6):
            env = {ln: 3, ("attr", TSELF, "_length"): 3}
            for k in keys_:
                env[k] = kv
            # local names bound to the row count (n_rows = len(self)) appear as the count itself in the terms
            r = ev_bool(c, env)
            if r is None:
                exact_probs = None
                break
            raised = r if pol else not r
            if raised != (not -3 <= kv < 3):
                exact_probs.append(f"t[{kv}] on a table of 3 rows: IndexError {'raised' if raised else 'not raised'}")
        if exact_probs is None:
            break
    if exact_probs is None:
        return None
    return exact_probs


def _name_forms(prog):
    """(forms of the single-name branch, forms of the multi-name branch): the comparisons  <something about a column> == <name>.lower()
    / == <name>  under which a column is selected, with the column, its position and the name abstracted."""
    from ..symx import Interp as SInterp
    from ..symx import flatten_conds
    f = prog.func("table.Table.__getitem__")
    it = SInterp(prog, f)
    S = ("param", f.params[0])
    cols = ("attr", S, "_underlying")

    def norm(t, name):
        if t == name:
            return ("NAME",)
        if not isinstance(t, tuple):
            return t
        if t and t[0] == "elem" and t[1] == cols:
            return ("COL",)
        if t and t[0] == "idx":
            return ("IDX",)
        return tuple(norm(x, name) for x in t)

    def atoms_of(conds):
        for c, pol in flatten_conds(conds):
            if pol:
                yield c

    def forms(events, name, loops_of_interest=None):
        """normalised  <column expr> == <name expr>  atoms under which something is selected: from the path conditions of the events
        and from the hit conditions of search loops (first-match scans, evaluated in line); `x in (a, b)` counts as x == a, x == b"""
        out = set()
        pool = []
        for e in events:
            pool += list(atoms_of(e.conds))
            for L in e.loops:
                for fc in it.loops[L].found:
                    pool += list(atoms_of(fc))
            for t in _walk(e.term):
                if isinstance(t, tuple) and t and t[0] == "first" and t[1] in it.loops:
                    for fc in it.loops[t[1]].found:
                        pool += list(atoms_of(fc))
        for c in pool:
            pairs = []
            if c[0] == "cmp" and c[1] == "Eq":
                pairs.append((c[2], c[3]))
            elif c[0] == "cmp" and c[1] == "In":
                # x in (a, b) / x in (<tuple> if c else <tuple>): every candidate of every alternative
                stack = [c[3]]
                while stack:
                    r = stack.pop()
                    if r[0] == "ifexp":
                        stack += [r[2], r[3]]
                    elif r[0] == "tuple":
                        pairs += [(c[2], x) for x in r[1]]
            for a, b in pairs:
                na, nb = norm(a, name), norm(b, name)
                w = list(_walk(na)) + list(_walk(nb))
                if na == ("NAME",) or nb == ("NAME",) or any(x == ("NAME",) for x in w):
                    if any(x == ("COL",) or x == ("IDX",) for x in w):
                        out.add(("Eq",) + tuple(sorted((na, nb), key=repr)))
        return out
    # single name
    KEY = None
    lit = None
    for e in it.events:
        for t, pol in flatten_conds(e.conds):
            if t[0] == "call" and t[1] == ("name", "isinstance") and len(t[2]) == 2 and t[2][1] == ("name", "str") and pol \
                    and any(x == ("param", f.params[1]) for x in _walk(t[2][0])):
                KEY, lit = t[2][0], t
                break
        if KEY is not None:
            break
    if KEY is None:
        raise AnalysisError("Table.__getitem__: string-key branch not found")
    single = forms([e for e in it.events if e.kind in ("return", "raise") and (lit, True) in flatten_conds(e.conds)], KEY)
    mit, Ln, rc, els = multi_name_selection(prog)
    name = ("elem", mit.loops[Ln].iter, Ln)
    # the multi-name interpreter is another Interp of the same function: loop ids agree (deterministic)
    multi = forms([e for e in it.events if Ln in e.loops and e.kind in ("elem", "call", "raise", "return")], name)
    return single, multi


def _walk(t):
    stack = [t]
    while stack:
        x = stack.pop()
        yield x
        if isinstance(x, tuple):
            stack.extend(y for y in x if isinstance(y, tuple))


def multi_name_selection(prog):
    """(interp, names loop id, result list term, append events) of Table.__getitem__'s tuple-of-names branch."""
    from ..symx import Interp as SInterp
    from ..symx import elements
    f = prog.func("table.Table.__getitem__")
    it = SInterp(prog, f)
    best = None
    for e in it.events:
        if e.kind == "return" and e.depth == 0 and e.term[0] == "call" and e.term[1] == ("name", "Table") and len(e.term[2]) == 1 \
                and e.term[2][0][0] == "obj" and it.objs[e.term[2][0][1]].kind in ("list", "listcomp"):
            rc = e.term[2][0]
            els = elements(it, rc)
            if els and all(x.loops for x in els):
                Ln = els[0].loops[0]
                lp = it.loops[Ln]
                if lp.iter is not None and lp.kind == "for" and all(x.loops[0] == Ln for x in els):
                    best = (it, Ln, rc, els)
    if best is None:
        raise AnalysisError("Table.__getitem__: multi-name selection (a list of columns filled per requested name, returned as Table) not found")
    return best


def multi_name_exact_first(prog) -> List[str]:
    from ..symx import NONE as SNONE
    from ..symx import show, show_conds
    it, Ln, rc, els = multi_name_selection(prog)
    S = ("param", "self")
    cols = ("attr", S, "_underlying")
    name = ("elem", it.loops[Ln].iter, Ln)
    probs: List[str] = []

    def scan_ok(Ls: int, conds_inside, what: str) -> bool:
        lp = it.loops[Ls]
        src = lp.domain if (lp.domain is not None and lp.domain[0] != "tuple") else lp.iter
        if src != cols:
            probs.append(f"{what}: the first scan ranges over `{show(src, it)[:50]}`, not over all columns in order")
            return False
        el = ("elem", cols, Ls)
        want = ("cmp", "Eq", ("attr", el, "_name"), name)
        alt = ("cmp", "Eq", name, ("attr", el, "_name"))
        if list(conds_inside) not in ([(want, True)], [(alt, True)]):
            probs.append(f"{what}: the first scan matches under `{show_conds(conds_inside, it)[:80]}`, not under the exact test "
                         f"`col._name == name` (a sanitised look-alike placed earlier could win over the exactly named column)")
            return False
        if not lp.found and (len(lp.breaks) != 1 or list(lp.breaks[0][len(lp.conds):]) != list(conds_inside)):
            probs.append(f"{what}: the exact scan does not stop at the first exactly named column")
            return False
        return True
    first = min(els, key=lambda e: e.seq)
    v = first.value if first.kind == "elem" else (first.term[2][0] if first.term[2] else None)
    what = "Table.__getitem__(names)"
    if v is None or not (v[0] == "call" and v[1][0] == "attr" and v[1][2] == "copy" and not v[2] and not v[3]):
        probs.append(f"{what}: the selected column is added as `{show(v, it)[:60]}`, not as a plain copy")
        return probs
    X = v[1][1]
    if len(first.loops) == 2:
        Ls = first.loops[1]
        if first.conds[len(it.loops[Ln].conds):len(it.loops[Ls].conds)]:
            probs.append(f"{what}: the exact scan runs only under `{show_conds(first.conds[len(it.loops[Ln].conds):len(it.loops[Ls].conds)], it)[:60]}`")
        if scan_ok(Ls, first.conds[len(it.loops[Ls].conds):], what) and X != ("elem", cols, Ls):
            probs.append(f"{what}: the exact match does not yield the matched column itself")
    elif len(first.loops) == 1:
        # search-then-append: X = first@L(exact) , or (fallback if first@L is None else first@L)
        F = X
        if X[0] == "ifexp" and X[1][0] == "cmp" and X[1][1] == "Is" and X[1][3] == SNONE and X[3] == X[1][2]:
            F = X[3]
        if F[0] != "first":
            probs.append(f"{what}: the branch does not start with the exact stored-name scan (selected column is `{show(X, it)[:70]}`)")
        else:
            Ls = F[1]
            lp = it.loops[Ls]
            inside = lp.found[0] if len(lp.found) == 1 else (lp.breaks[0][len(lp.conds):] if len(lp.breaks) == 1 and not lp.found else ())
            if lp.conds[len(it.loops[Ln].conds):]:
                probs.append(f"{what}: the exact scan runs only under `{show_conds(lp.conds[len(it.loops[Ln].conds):], it)[:60]}`")
            if scan_ok(Ls, inside, what) and F[2] != ("elem", cols, Ls):
                probs.append(f"{what}: the exact match does not yield the matched column itself")
    else:
        probs.append(f"{what}: columns are appended in {len(first.loops)} nested loops")
    return probs


# ---------------------------------------------------------------------------------------------
def _rows(ctx) -> None:
    """Table.__getitem__ with a row key (slice / mask / index vector): every such result is `col[key]` mapped over ALL columns
    with the SAME key - decided on the return events of the symx log (closures / helpers in line)."""
    from ..sites2 import comp_parts
    from ..symx import Interp as SInterp
    from ..symx import flatten_conds, show, show_conds, subterms
    prog = ctx.prog
    f = prog.func("table.Table.__getitem__")
    it = SInterp(prog, f)
    SELF = ("param", f.params[0])
    keyp = ("param", f.params[1])
    cols = (("attr", SELF, "_underlying"), ("call", ("attr", SELF, "cols"), (), ()))
    n = 0
    for e in it.events:
        if e.kind != "return" or e.depth != 0:
            continue
        t = e.term
        if not (t[0] == "call" and t[1] in (("name", "Vector"), ("name", "Table")) and t[2]):
            continue
        cp = comp_parts(it, t[2][0])
        if cp is None or len(cp[0]) != 1:
            continue
        (L,), extra, v, ev = cp
        lp = it.loops[L]
        # a per-column result: a comprehension over the table's columns (or elements computed from the key)
        over_cols = lp.iter in cols
        if not over_cols and not (v[0] == "sub" and any(x == keyp for x in subterms(v[2]))):
            continue
        n += 1
        problems = []
        KEYS = (keyp, ("call", ("attr", SELF, "_check_duplicate"), (keyp,), ()))
        if extra:
            problems.append(f"columns are filtered by `{show_conds(extra, it)[:50]}`")
        if not over_cols:
            problems.append(f"the selection ranges over `{show(lp.iter, it)[:50]}`, not over all columns in order")
        if not (v[0] == "sub" and v[1] == ("elem", lp.iter, L) and v[2] in KEYS):
            problems.append(f"each column is selected by `{show(v, it)[:60]}`, not by the caller's key itself on the column (`col[key]`: "
                            f"the column's own indexing decides slices, masks and index lists)")
        ctx.ob("e.uniform-rows", f, f"rows:{n}", not problems, "same key mapped over all columns", e.node, message="; ".join(problems))
    if n < 2:
        raise AnalysisError(f"Table.__getitem__: expected row-selection results (col[key] over all columns), found {n}")


_V, _T = "vector", "table"
MUTANTS = [
    dict(id="compare-pairs-mapping-keys", module=_V,
         old="		if isinstance(other, Iterable) and not isinstance(other, (str, bytes, bytearray, int, float, complex, Enum, Mapping)):\n			# Raise mismatched lengths",
         new="		if isinstance(other, Iterable) and not isinstance(other, (str, bytes, bytearray, int, float, complex, Enum)):\n			# Raise mismatched lengths",
         rules=["a.compare-kernels"], desc="reverts fix 18304b1 (vector comparison kernel)"),
    dict(id="row-name-exact-str-type", module=_T, old="		if isinstance(key, str):\n			# (a str subclass", new="		if type(key) is str:\n			# (a str subclass",
         rules=["d.dispatch-exhaustive"], desc="reverts fix 4cce835"),
    dict(id="table-refuses-empty-selection", module=_T, count=1,
         old="		if (isinstance(key, list) or (isinstance(key, Vector) and key.schema() is None)) and len(key) == 0:\n			# the empty list and an untyped empty vector (Vector([]): a mask",
         new="		if False:\n			# the empty list and an untyped empty vector (Vector([]): a mask", rules=["d.dispatch-exhaustive"], desc="reverts fix 171ac85"),
    dict(id="empty-index-list-wrong-length-mask", module=_V, count=2, nth=0,
         old="		if (isinstance(key, list) or (isinstance(key, Vector) and key.schema() is None)) and len(key) == 0:",
         new="		if isinstance(key, Vector) and key.schema() is None and len(key) == 0:", rules=["d.dispatch-exhaustive"], desc="reverts fix a2b9f72 (getitem)"),
    dict(id="table-compare-zero-rows-rowwise", module="table", old="			if len(self) == 0:\n				# (no rows to pair", new="			if False:\n				# (no rows to pair",
         rules=["d.dispatch-exhaustive"], desc="reverts fix b698280"),
    dict(id="getitem-untyped-key-unguarded", module="vector",
         old="		if isinstance(key, Vector) and key.schema() is not None and key.schema().kind == bool and not key.schema().nullable:",
         new="		if isinstance(key, Vector) and key.schema().kind == bool and not key.schema().nullable:", rules=["f.untyped-empty"],
         desc="reverts part of fix d0078cb: v[Vector([])] raises AttributeError"),
    dict(id="row-dtype-of-untyped-column", module="table",
         old="			col_dtypes = [col._dtype if col._dtype is not None else DataType(object, nullable=True) for col in table._underlying]",
         new="			col_dtypes = [col._dtype for col in table._underlying]", rules=["f.untyped-empty"],
         desc="reverts fix ec917e4: iterating Table({'a': [], 'b': []}) raises AttributeError"),
    dict(id="rshift-warning-untyped-self", module="vector", count=2, nth=0,
         old="		if self._dtype is not None and self._dtype.kind in (bool, int) and isinstance(other, int):",
         new="		if self._dtype.kind in (bool, int) and isinstance(other, int):", rules=["f.untyped-empty"],
         desc="reverts part of fix aa39a04: Vector([]) << 1 raises AttributeError"),
    dict(id="dropna-untyped-self", module="vector",
         old="			dtype=self._dtype.with_nullable(False) if self._dtype is not None else None,", new="			dtype=self._dtype.with_nullable(False),",
         rules=["f.untyped-empty"], desc="reverts part of fix 9a342bb: Vector([]).dropna() raises AttributeError"),
    dict(id="fillna-promotes-untyped", module="vector", old="		if dtype is not None and value is not None and dtype.kind is not object:",
         new="		if value is not None and (dtype is None or dtype.kind is not object):", rules=["f.untyped-empty"],
         desc="_promote reached with an untyped receiver"),
    dict(id="row-item-through-getattr", module="table",
         old="			col_idx = None\n			for i, name in enumerate(self._names):\n				if name == key:\n					col_idx = i\n					break\n			if col_idx is None:\n				col_idx = self._column_map.get(key)\n			if col_idx is None:\n				col_idx = self._column_map.get(key.lower())\n			if col_idx is None:\n				raise SerifKeyError(f\"Column '{key}' not found\")\n			return self._raw_cols[col_idx][self._index]",
         new="			return getattr(self, key)", rules=["d.dispatch-exhaustive"], desc="reverts fix 5d3e9bd"),
    dict(id="row-item-map-only", module="table",
         old="			col_idx = None\n			for i, name in enumerate(self._names):\n				if name == key:\n					col_idx = i\n					break\n			if col_idx is None:\n				col_idx = self._column_map.get(key)",
         new="			col_idx = self._column_map.get(key)", rules=["d.dispatch-exhaustive"], desc="t[1, 'A'] reads column 'a' when both exist"),
    dict(id="table-compare-any-vector-as-table", module="table",
         old="		if isinstance(other, Vector) and other.ndims() == 2:\n			# (a table; a plain vector",
         new="		if isinstance(other, Vector):\n			# (a table; a plain vector", rules=["d.dispatch-exhaustive"], desc="reverts fix 804fe3e"),
    dict(id="table-compare-none-row-as-scalar", module="table",
         old="			return Vector(tuple(op(x, y) if y is not None else Vector([False] * n_cols)\n				for x, y in zip(self, other, strict=True))).T",
         new="			return Vector(tuple(op(x, y)\n				for x, y in zip(self, other, strict=True))).T", rules=["d.dispatch-exhaustive"],
         desc="reverts fix 776a7e2"),
    dict(id="tuple-selection-drops-accessor-form", module="table",
         old="							elif base == col_name_lower:\n								# (the accessor name itself, as for a single name: t['col_a'] and t['col_a',])\n								selected_cols.append(col.copy())\n								found = True\n								break\n",
         new="", rules=["d.dispatch-exhaustive"], desc="reverts fix c054980: t['col_a',] raises although t['col_a'] finds the column"),
    dict(id="table-mask-length-by-assert", module="table", count=2, nth=0,
         old="			if len(self) != len(key):\n				raise ValueError(f\"Boolean mask length mismatch: {len(self)} != {len(key)}\")",
         new="			assert (len(self) == len(key))", rules=["d.dispatch-exhaustive"], desc="reverts fix 5d20556"),
    dict(id="self-operand-deepcopied", module="vector", old="			return other.copy()", new="			return deepcopy(other)",
         rules=["d.dispatch-exhaustive"], desc="the defect repaired by fix f22891c: t == t raises RecursionError"),
    dict(id="table-getitem-falls-off", module="table",
         old="		raise SerifTypeError(\n			f'Table indices must be column names, integers, slices, boolean vectors or integer vectors, not {type(key).__name__}'\n		)\n",
         new="", rules=["d.dispatch-exhaustive"], desc="the defect repaired by fix 1f309df"),
    dict(id="table-row-index-unbounded", module="table",
         old="			if not -n_rows <= key < n_rows:\n				raise IndexError(f\"Table row index {key} out of range (table has {n_rows} rows)\")\n", new="",
         rules=["d.dispatch-exhaustive"], desc="the defect repaired by fix 172f6ac"),
    dict(id="invert-keeps-nullable-dtype", module="vector", old="				dtype=DataType(bool, nullable=False),\n				name=self._name,", new="				dtype=self._dtype,\n				name=self._name,",
         rules=["a.compare-kernels"], desc="part of the defect repaired by fix 488e73a"),
    dict(id="invert-none-becomes-true", module="vector", old="				tuple(False if x is None else (not x) for x in self),", new="				tuple(not x for x in self),",
         rules=["a.compare-kernels"], desc="part of the defect repaired by fix 488e73a"),
    dict(id="compare-nullable-true", module=_V, count=3, nth=2, old="return Vector(result_values, dtype=DataType(bool, nullable=False))",
         new="return Vector(result_values, dtype=DataType(bool, nullable=True))", rules=["a.compare-kernels"]),
    dict(id="copy-or-again", module=_V, old="		return Vector(list(self._underlying if new_values is None else new_values),",
         new="		return Vector(list(new_values or self._underlying),", rules=["b.slice-integrity"]),
    dict(id="mask-inverted", module=_V, count=2, nth=0,
         old="			return self.copy((x for x, y in zip(self, key, strict=True) if y), name=self._name)",
         new="			return self.copy((x for x, y in zip(self, key, strict=True) if not y), name=self._name)", rules=["c.mask"]),
    dict(id="missing-raise-dead-again", module=_T,
         old="								found = True\n								break\n\n				if not found:\n					raise _missing_col_error(col_name)",
         new="								found = True\n								break\n\n								if not found:\n									raise _missing_col_error(col_name)",
         rules=["d.dead-raise", "d.must-append"]),
    dict(id="found-hoisted", module=_T,
         old="			selected_cols = []\n			for col_name in key:\n				found = False\n",
         new="			selected_cols = []\n			found = False\n			for col_name in key:\n", rules=["d.must-append"]),
    dict(id="slice-drops-name", module=_V, old="			return self.copy(self._underlying[key], name=self._name)",
         new="			return self.copy(self._underlying[1:][key], name=self._name)", rules=["b.slice-integrity"]),
    dict(id="compare-operands-swapped", module=_V, count=2, nth=1,
         old="			result_values = tuple(False if (x is None or y is None) else bool(op(x, y)) for x, y in zip(self, other, strict=True))",
         new="			result_values = tuple(False if (x is None or y is None) else bool(op(y, x)) for x, y in zip(self, other, strict=True))",
         rules=["a.compare-kernels"]),
    dict(id="lt-dispatches-le", module=_V, old="		return self._elementwise_compare(other, operator.lt)",
         new="		return self._elementwise_compare(other, operator.le)", rules=["a.dispatch"]),
    dict(id="row-slice-skips-first-column", module=_T,
         old="			return Vector(tuple(x[key] for x in self._underlying), \n				dtype = self._dtype,\n				name=self._name",
         new="			return Vector(tuple(x[key] for x in self._underlying[1:]), \n				dtype = self._dtype,\n				name=self._name",
         rules=["e.uniform-rows"]),
    dict(id="int-index-through-list", module=_V, old="			return self._underlying[key]\n\n		if isinstance(key, tuple):",
         new="			return list(self)[key - 1 if key > 0 else key]\n\n		if isinstance(key, tuple):", rules=["b.int-index"]),
    dict(id="getitem-falls-off", module=_V,
         old="		raise SerifTypeError(f'Vector indices must be boolean vectors, integer vectors or integers, not {str(type(key))}')",
         new="		return None", rules=["d.dispatch-exhaustive"]),
    dict(id="date-compare-loses-guard", module=_V,
         old="			return Vector(tuple(False if x is None else bool(op(x, date.fromisoformat(other))) for x in self), dtype=DataType(bool))",
         new="			return Vector(tuple(bool(op(x, date.fromisoformat(other))) for x in self), dtype=DataType(bool))",
         rules=["a.compare-kernels"]),
    dict(id="twin-single-name-helper", module=_T, twin=True,
         old="			raise _missing_col_error(key)\n		\n		# Handle tuple of strings",
         new="			raise _missing_col_error(key, context=\"Table\")\n		\n		# Handle tuple of strings"),
]

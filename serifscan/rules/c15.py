"""C15 - alias tracking is exact: no leaked write, no spurious refusal.

The quantifier (all allocation / collection histories, identity reuse) is discharged by an
invariant, and the rules decide that every statement of the package preserves it:

  INV: every live registered vector v is listed in the registry under id(v._underlying)
       and under no other key.

With INV an entry under key k lists only vectors whose CURRENT storage is the live object
with identity k (a vector holds a strong reference to its storage, so k cannot be recycled
while a listed vector is alive); dead weak references are pruned before counting; so
check_writable counts exactly the live sharers.  INV can only be broken by a statement that
changes v._underlying or registers v.
"""
from __future__ import annotations

import ast
from typing import List, Optional, Set, Tuple

from ..astutil import Defs
from ..cfg import PARAM, cfg_of, reaching_def_nodes, reaching_defs
from ..core import AnalysisError, FuncInfo, attr_chain, short, walk_no_nested, walk_stmts
from .c01 import _field_stores, _fresh_vector_expr

TRACKER_CALLERS = {"vector.Vector.__init__", "vector.Vector.__setitem__", "vector.Vector._promote",
                   "table.Table._replace_column"}


def tracker_names(f: FuncInfo) -> Set[str]:
    d = Defs(f)
    return {"_ALIAS_TRACKER"} | {n for n, lst in d.assigns.items()
                                 if any(v is not None and isinstance(v, ast.Name) and v.id == "_ALIAS_TRACKER" for v, _, _ in lst)}


def tracker_calls(prog, f: FuncInfo, method: str):
    """CFG nodes of statements `<tracker>.<method>(...)` in f -> [(node, call)]."""
    cfg = cfg_of(f)
    tn = tracker_names(f)
    out = []
    for n in cfg.stmt_nodes():
        if n.kind == "stmt" and isinstance(n.ast, ast.Expr) and isinstance(n.ast.value, ast.Call):
            ch = attr_chain(n.ast.value.func)
            if ch and len(ch) == 2 and ch[0] in tn and ch[1] == method:
                out.append((n, n.ast.value))
    return out


def storage_store_nodes(prog, f: FuncInfo):
    """[(cfg node, object expr text, value expr)] for stores to <obj>._underlying in f."""
    cfg = cfg_of(f)
    out = []
    for g, node, val in _field_stores(prog, "_underlying"):
        if g is not f:
            continue
        if isinstance(node, ast.Call):          # object.__setattr__(obj, '_underlying', v)
            obj = short(node.args[0])
        else:
            tg = node.targets[0] if isinstance(node, ast.Assign) else node.target
            obj = short(tg.value)
        out.append((cfg.enclosing_stmt_node(prog, node), obj, val))
    return out


def swap_event(prog, f: FuncInfo, n, obj: str) -> bool:
    """Does CFG node n change obj's storage (store or a call that swaps it)?"""
    st = n.ast
    if n.kind != "stmt" or st is None:
        return False
    for m in walk_no_nested(st):
        if isinstance(m, ast.Call):
            ch = attr_chain(m.func)
            if ch and ch[-1] in ("_promote", "_replace_column", "__setitem__") and ".".join(ch[:-1]) == obj:
                return True
            if ch and ".".join(ch) in ("object.__setattr__", "setattr") and len(m.args) == 3 \
                    and short(m.args[0]) == obj and isinstance(m.args[1], ast.Constant) and m.args[1].value == "_underlying":
                return True
    if isinstance(st, (ast.Assign, ast.AugAssign)):
        tg = st.targets if isinstance(st, ast.Assign) else [st.target]
        for t in tg:
            if isinstance(t, ast.Attribute) and t.attr == "_underlying" and short(t.value) == obj:
                return True
    return False


def _swap_on_defuse_path(prog, f, cfg, def_node, use_node, var: str, obj: str):
    """A swap event of obj on some path def_node -> use_node along which `var` is not rebound (else None)."""
    from ..cfg import _defines
    from collections import deque
    start = (def_node.id, False)
    seen = {start}
    dq = deque([start])
    while dq:
        nid, sw = dq.popleft()
        n = cfg.nodes[nid]
        for s, _ in n.succ:
            if s is use_node:
                if sw:
                    return sw
                continue
            if s.kind in ("exit", "raise_exit"):
                continue
            if _defines(s, var) is not None:
                continue                 # var rebound: this definition does not flow further
            sw2 = sw or (s if swap_event(prog, f, s, obj) else False)
            key = (s.id, bool(sw2))
            if key not in seen:
                seen.add(key)
                dq.append((s.id, sw2))
    return None


def _id_of_current_storage(prog, f: FuncInfo, cfg, expr: ast.AST, at, obj: str, store_node) -> Optional[str]:
    """Is `expr` (evaluated at node `at`) the id of obj's storage that is CURRENT at `at`?
    None if yes, else a reason.  Follows local definitions; a storage swap on a def-use path makes it stale."""
    def ok(e: ast.AST, node, depth=0) -> Optional[str]:
        if depth > 6:
            return "definition chain too deep"
        if isinstance(e, ast.Attribute) and e.attr == "_underlying" and short(e.value) == obj:
            return None
        if isinstance(e, ast.Call) and isinstance(e.func, ast.Name) and e.func.id == "id" and len(e.args) == 1:
            return ok(e.args[0], node, depth + 1)
        if isinstance(e, ast.Name):
            defs = reaching_def_nodes(cfg, e.id, node)
            if not defs:
                return f"`{e.id}` has no definition"
            for d, dn in defs:
                if d is PARAM or not isinstance(d, ast.expr):
                    return f"`{e.id}` may be a parameter / non-expression binding"
                r = ok(d, dn, depth + 1)
                if r:
                    return r
                sw = _swap_on_defuse_path(prog, f, cfg, dn, node, e.id, obj)
                if sw:
                    return (f"`{e.id}` (bound at line {dn.lineno}) no longer denotes the current storage when it is used at "
                            f"line {node.lineno}: `{sw.text()}` (line {sw.lineno}) replaces the storage in between")
            return None
        return f"`{short(e)}` is not (the id of) a read of {obj}._underlying"
    return ok(expr, at)


def run(ctx) -> None:
    ctx.rule("a.bracket", "every store to <obj>._underlying on a possibly registered object is preceded on every path by "
                          "unregister(obj, id(<storage current at the swap>)) and followed on every path to exit by "
                          "register(obj, id(<the stored tuple>))", 2)
    ctx.rule("b.no-reinit", "no __new__ returns an already initialised object of the hierarchy unless the __init__ that "
                            "Python re-runs starts with an already-initialised guard", 1)
    ctx.rule("c.register-last", "Vector.__init__ registers exactly once, after the storage is stored, under id(self._underlying)", 1)
    ctx.rule("d.tracker", "check_writable raises only when more than one LIVE referent remains after pruning; register "
                          "adds at most one reference per object; unregister drops the object's and dead references and "
                          "deletes empty entries", 4)
    ctx.rule("e.who-calls", "only Vector.__init__/__setitem__/_promote and Table._replace_column call register/unregister; "
                            "nothing outside _AliasTracker touches _registry", 2)
    ctx.rule("f.fresh-storage", "Vector.copy hands a fresh list to the constructor (so tuple(initial) creates new storage; "
                                "a whole-range slice of a tuple is the same object)", 1)
    ctx.section("a", _bracket, ctx)
    ctx.section("b", _no_reinit, ctx)
    ctx.section("c", _register_last, ctx)
    ctx.section("d", _tracker, ctx)
    ctx.section("e", _who_calls, ctx)
    ctx.section("f", _fresh_storage, ctx)
    ctx.not_decided.append("garbage-collection timing itself; the argument is by invariant preservation, not by exploring histories")


_TRACKERS = (("name", "_ALIAS_TRACKER"), ("name", "_alias"))
_SWAP_CALLS = ("_promote", "_replace_column", "__setitem__")


def _swap_events(it):
    """[(event, object term, stored value term or None)] - everything that replaces an object's storage tuple, in program order"""
    out = []
    for e in it.events:
        if e.kind == "store" and e.term[0] == "attr" and e.term[2] == "_underlying":
            out.append((e, e.term[1], e.value))
        elif e.kind == "call" and e.term[1] in (("attr", ("name", "object"), "__setattr__"), ("name", "setattr")) and len(e.term[2]) == 3 \
                and e.term[2][1] == ("const", "str", "_underlying"):
            out.append((e, e.term[2][0], e.term[2][2]))
        elif e.kind == "call" and e.term[1][0] == "attr" and e.term[1][2] in _SWAP_CALLS:
            out.append((e, e.term[1][1], None))
    return out


def _tracker_events(it, method: str):
    return [e for e in it.events if e.kind == "call" and e.term[1][0] == "attr" and e.term[1][2] == method and e.term[1][1] in _TRACKERS]


def _eval_event(it, t):
    """the event at which term t (a call) was evaluated: terms keep their identity through copy propagation"""
    for e in it.events:
        if e.kind == "call" and e.term is t:
            return e
    same = [e for e in it.events if e.kind == "call" and e.term == t]
    return same[-1] if same else None


def _subset(a, b) -> bool:
    from ..symx import flatten_conds
    fb = flatten_conds(b)
    return all(c in fb for c in flatten_conds(a))


def _id_problem(it, arg, X, not_before: int, not_after: int, what: str) -> Optional[str]:
    """arg must be id(X._underlying) READ between the two points of the event order (no swap of X in between)"""
    from ..symx import show
    und = ("attr", X, "_underlying")
    if not (arg[0] == "call" and arg[1] == ("name", "id") and len(arg[2]) == 1 and arg[2][0] == und):
        return f"{what} names `{show(arg, it)[:40]}`, not id({show(X, it)[:20]}._underlying)"
    ev = _eval_event(it, arg)
    # the storage whose identity is taken was READ at some point (possibly into a local, long before id() is applied to it)
    rd = next((r for r in it.reads if r.term is arg[2][0]), None)
    if rd is not None and (ev is None or rd.seq < ev.seq):
        ev = rd
    if ev is None:
        return None
    for sw, obj, _ in _swap_events(it):
        if obj == X and ev.seq < sw.seq < not_after and sw.seq > not_before:
            return (f"{what} uses an identity read at line {getattr(ev.node, 'lineno', '?')}, but `{show(sw.term, it)[:50]}` (line "
                    f"{getattr(sw.node, 'lineno', '?')}) replaces the storage before it is used: the identity is stale")
    return None


def _bracket(ctx) -> None:
    """Every replacement of a registered object's storage is bracketed: unregister(obj, id(<storage being replaced>)) before it on
    every path, register(obj, id(<storage just stored>)) after it on every path - on the symx event logs (helpers in line; the
    event order and the identity of each id() read decide what 'current' means)."""
    from ..sites2 import standalone_interps
    from ..symx import show
    from .c08 import _compatible
    prog = ctx.prog
    n_sites = 0
    for q, it in sorted(standalone_interps(prog).items()):
        f = prog.functions.get(q)
        if f is None or f.name == "__init__":
            continue     # first store of an object under construction: nothing registered yet (C15.b/c)
        from ..core import dead_private_helper
        if dead_private_helper(prog, f):
            continue     # (a private helper nothing in the package mentions: unreachable, its parameters carry nothing)
        swaps = _swap_events(it)
        stores = [(e, X, v) for e, X, v in swaps if v is not None]
        if not stores:
            continue
        unregs, regs = _tracker_events(it, "unregister"), _tracker_events(it, "register")
        for k, (s_, X, val) in enumerate(stores, 1):
            n_sites += 1
            problems = []
            prev_swaps = [sw.seq for sw, obj, _ in swaps if obj == X and sw.seq < s_.seq]
            lo = max(prev_swaps) if prev_swaps else -1
            cands = [u for u in unregs if lo < u.seq < s_.seq and len(u.term[2]) == 2 and u.term[2][0] == X and u.loops == s_.loops
                     and _subset(u.conds, s_.conds)]
            if not cands:
                problems.append(f"the swap is not preceded on every path by unregister({show(X, it)[:20]}, ...)")
            else:
                u = cands[-1]
                r_ = _id_problem(it, u.term[2][1], X, -1, u.seq, f"unregister at line {getattr(u.node, 'lineno', '?')}")
                if r_:
                    problems.append(r_ + " (the vector stays listed under a dead identity that a later tuple can receive)")
            nxt = [sw.seq for sw, obj, _ in swaps if obj == X and sw.seq > s_.seq]
            hi = min(nxt) if nxt else 10 ** 9
            rc = [r for r in regs if s_.seq < r.seq < hi and len(r.term[2]) == 2 and r.term[2][0] == X and r.loops == s_.loops
                  and _subset(r.conds, s_.conds)]
            if not rc:
                problems.append(f"the swap is not followed on every path to exit by register({show(X, it)[:20]}, ...)")
            else:
                r = rc[0]
                for e in it.events:
                    if e.kind in ("return", "raise") and s_.seq < e.seq < r.seq and _compatible(e.conds, s_.conds):
                        problems.append(f"`{e.kind} {show(e.term, it)[:30]}` can leave between the store and register")
                a = r.term[2][1]
                if a[0] == "call" and a[1] == ("name", "id") and len(a[2]) == 1 and a[2][0] == val:
                    pass
                else:
                    und = ("attr", X, "_underlying")
                    ok = a[0] == "call" and a[1] == ("name", "id") and len(a[2]) == 1 and a[2][0] == und
                    ev = _eval_event(it, a) if ok else None
                    if not ok or ev is None or ev.seq < s_.seq:
                        problems.append(f"register at line {getattr(r.node, 'lineno', '?')} uses `{show(a, it)[:40]}`, not the identity of the "
                                        f"tuple just stored (`{show(val, it)[:40]}`)")
            ctx.ob("a.bracket", f, f"swap:{k}", not problems,
                   f"store {show(X, it)[:20]}._underlying = {show(val, it)[:40]} bracketed by unregister(old)/register(new)", s_.node,
                   message="; ".join(problems))
    if n_sites == 0:
        raise AnalysisError("no storage swap site found")


def _no_reinit(ctx) -> None:
    prog = ctx.prog
    hierarchy = set(prog.subclasses("Vector"))
    n = 0
    for cname in sorted(hierarchy):
        c = prog.cls(cname)
        new = c.methods.get("__new__")
        if new is None:
            continue
        for st in walk_stmts(new.body):
            if isinstance(st, ast.Return) and isinstance(st.value, ast.Call) and isinstance(st.value.func, ast.Name) \
                    and st.value.func.id in hierarchy:
                n += 1
                target_cls = st.value.func.id
                init = prog.method(target_cls, "__init__")
                ok, why = _has_reinit_guard(init)
                ctx.ob("b.no-reinit", new, f"returns:{target_cls}", ok,
                       f"{new.qualname} returns {target_cls}(...); {init.qualname} {why}", st,
                       message=f"{new.qualname} returns an already initialised {target_cls}; Python then calls "
                               f"{target_cls}.__init__ on it again, which {why} - the second run swaps the storage and "
                               f"registers it without unregistering the first (stale registry entry for a live object)")
    # the mirror image: a constructor call through a CLASS VARIABLE - cls(...) in a classmethod, type(self)(...), self.__class__(...).
    # Vector.__new__ picks the class from the data / dtype; called as _Int(...) with float data it returns a _Float, which is not an
    # instance of _Int, so Python runs no __init__ at all: a hollow object (no storage, unregistered) is handed out
    hollow = []
    for q, fn in sorted(prog.functions.items()):
        if isinstance(fn.node, ast.Lambda) or fn.cls not in hierarchy:
            continue
        for c_ in prog.calls_in(fn):
            tgt = c_.func
            via = None
            if isinstance(tgt, ast.Name) and tgt.id == "cls" and "classmethod" in fn.decorators:
                via = "cls(...)"
            elif isinstance(tgt, ast.Call) and isinstance(tgt.func, ast.Name) and tgt.func.id == "type" and len(tgt.args) == 1 \
                    and short(tgt.args[0]) == "self":
                via = "type(self)(...)"
            elif isinstance(tgt, ast.Attribute) and tgt.attr == "__class__" and short(tgt.value) == "self":
                via = "self.__class__(...)"
            if via:
                hollow.append((fn, c_, via))
    ctx.ob("b.no-reinit", prog.func("vector.Vector.__new__"), "no-class-variable-construction", not hollow,
           "no vector is constructed through cls(...) / type(self)(...): the class is picked by Vector.__new__ from the data",
           hollow[0][1] if hollow else prog.func("vector.Vector.__new__").node,
           message="; ".join(f"{fn.qualname} line {c_.lineno}: `{short(c_, 50)}` constructs through {via}: on a typed vector the class "
                             f"variable is _Int / _String / ..., Vector.__new__ returns a sibling class for data of another kind and Python "
                             f"then skips __init__ - Vector([1, 2]).new(0.5, 2) is a hollow object whose repr raises" for fn, c_, via in hollow[:2]))
    if n == 0:
        # nothing returns a constructed object any more: vacuous, but keep the rule honest
        ctx.ob("b.no-reinit", prog.func("vector.Vector.__new__"), "returns:none", True,
               "no __new__ in the hierarchy returns an already constructed object")


def _has_reinit_guard(init: FuncInfo) -> Tuple[bool, str]:
    body = [s for s in init.body if not (isinstance(s, ast.Expr) and isinstance(s.value, ast.Constant))]
    if not body:
        return False, "is empty"
    s = body[0]
    if isinstance(s, ast.If) and len(s.body) == 1 and isinstance(s.body[0], ast.Return) and s.body[0].value is None \
            and not s.orelse:
        t = s.test
        if isinstance(t, ast.Compare) and len(t.ops) == 1 and isinstance(t.ops[0], ast.In) \
                and isinstance(t.left, ast.Constant) and t.left.value == "_underlying" \
                and short(t.comparators[0]) == "self.__dict__":
            return True, "starts with the already-initialised guard"
    return False, "has no already-initialised guard as its first statement"


def _register_last(ctx) -> None:
    """Vector.__init__ on its symx log: one register(self, id(self._underlying)), read after the (last) store, on every path that
    stores; nothing is stored after it."""
    from ..sites2 import interp_of
    from ..symx import show
    prog = ctx.prog
    f = prog.func("vector.Vector.__init__")
    it = interp_of(prog, f)
    SELF = ("param", f.params[0])
    regs = _tracker_events(it, "register")
    stores = [(e, X, v) for e, X, v in _swap_events(it) if v is not None and X == SELF]
    problems = []
    if len(regs) != 1:
        problems.append(f"{len(regs)} register calls in Vector.__init__, expected exactly one")
    else:
        r = regs[0]
        und = ("attr", SELF, "_underlying")
        if not (len(r.term[2]) == 2 and r.term[2][0] == SELF and r.term[2][1] == ("call", ("name", "id"), (und,), ())):
            problems.append(f"register is called as `{show(r.term, it)[:60]}`, expected register(self, id(self._underlying))")
        else:
            ev = _eval_event(it, r.term[2][1])
            for s_, X, v in stores:
                if s_.seq > r.seq:
                    problems.append(f"the storage can be stored (line {getattr(s_.node, 'lineno', '?')}) after registration")
                elif not _subset(r.conds, s_.conds) or r.loops:
                    problems.append(f"register does not follow the store at line {getattr(s_.node, 'lineno', '?')} on every path")
                elif ev is not None and ev.seq < s_.seq:
                    problems.append("register uses an identity read before the storage was stored")
    if not stores:
        problems.append("no store of _underlying in Vector.__init__")
    ctx.ob("c.register-last", f, "register", not problems, "register(self, id(self._underlying)) runs once, after the store",
           regs[0].node if regs else f.node, message="; ".join(problems))


def _tracker(ctx) -> None:
    prog = ctx.prog
    # _cleanup_dead_refs: returns exactly the live references
    f = prog.func("alias_tracker._AliasTracker._cleanup_dead_refs")
    rets = [s for s in walk_stmts(f.body) if isinstance(s, ast.Return)]
    ok = len(rets) == 1 and _is_live_filter(rets[0].value, f.params[1])
    ctx.ob("d.tracker", f, "prune", ok, "returns [r for r in refs if r() is not None]", rets[0] if rets else f.node,
           message=f"_cleanup_dead_refs no longer returns exactly the live references: `{short(rets[0].value) if rets else '?'}`")
    # check_writable
    f = prog.func("alias_tracker._AliasTracker.check_writable")
    cfg = cfg_of(f)
    raises = [n for n in cfg.stmt_nodes() if isinstance(n.ast, ast.Raise)]
    problems = []
    if len(raises) != 1 or not (isinstance(raises[0].ast.exc, ast.Call) and short(raises[0].ast.exc.func) == "AliasError"):
        problems.append("expected exactly one `raise AliasError(...)`")
    else:
        rz = raises[0]
        # the last test on the way to the raise must be on the number of LIVE owners
        tests = [t for t in cfg.nodes if t.kind == "test" and cfg.dominates(t, rz)]
        count_tests = []
        for t in tests:
            e = t.ast
            if isinstance(e, ast.Compare) and len(e.ops) == 1 and isinstance(e.left, ast.Call) \
                    and isinstance(e.left.func, ast.Name) and e.left.func.id == "len" and len(e.left.args) == 1 \
                    and isinstance(e.comparators[0], ast.Constant) and isinstance(e.comparators[0].value, int):
                count_tests.append(t)
        if len(count_tests) != 1:
            problems.append(f"{len(count_tests)} owner-count tests guard the raise, expected one")
        else:
            t = count_tests[0]
            e = t.ast
            op, k = e.ops[0], e.comparators[0].value
            # which edge leads to the raise?
            to_raise = [lab for s, lab in t.succ if (s is rz or cfg.can_reach(s, rz))]
            refuse_when = None
            if isinstance(op, ast.LtE) and to_raise == ["F"]:
                refuse_when = k + 1
            elif isinstance(op, ast.Lt) and to_raise == ["F"]:
                refuse_when = k
            elif isinstance(op, ast.Gt) and to_raise == ["T"]:
                refuse_when = k + 1
            elif isinstance(op, ast.GtE) and to_raise == ["T"]:
                refuse_when = k
            if refuse_when != 2:
                problems.append(f"the write is refused under `{short(e)}` ({'/'.join(to_raise)} edge), i.e. not exactly when at "
                                f"least 2 owners are counted")
            counted = e.left.args[0]
            why = _live_list(prog, f, cfg, counted, t)
            if why:
                problems.append(f"the owners counted by `{short(e)}` are not the LIVE referents after pruning: {why} - a "
                                f"vector whose former sharers were garbage-collected would be refused")
    # zero-length storage is never refused: every empty vector holds the one interned empty tuple
    from ..sites2 import interp_of as _iof
    from ..symx import flatten_conds as _fc
    cit = _iof(prog, f)
    TID = ("param", f.params[2])
    empty_id = ("call", ("name", "id"), (("tuple", ()),), ())
    rz_ev = [e for e in cit.events if e.kind == "raise"]
    guarded = bool(rz_ev) and all(any((not pol) and t[0] == "cmp" and t[1] == "Eq" and {t[2], t[3]} == {TID, empty_id} for t, pol in _fc(e.conds))
                                  for e in rz_ev)
    ctx.ob("d.tracker", f, "empty-storage", guarded, "the refusal cannot happen for id(()) - the storage every empty vector shares", f.node,
           message="check_writable can refuse zero-length storage: all empty vectors (and a 0-row table's own columns) hold CPython's one "
                   "interned empty tuple, so a no-op write on an empty filter result raises AliasError")
    ctx.ob("d.tracker", f, "refusal-condition", not problems,
           "AliasError iff at least 2 live referents remain after pruning dead weak references",
           raises[0].ast if raises else f.node, message="; ".join(problems))
    # register: at most one reference per object, appended to the list stored under the id (decided on the symx event log)
    from ..symx import Interp as SInterp
    from ..symx import NONE as SNONE
    from ..symx import elements, flatten_conds, show, show_conds, single_element, subterms
    f = prog.func("alias_tracker._AliasTracker.register")
    it = SInterp(prog, f)
    S, vec, tid = ("param", f.params[0]), ("param", f.params[1]), ("param", f.params[2])
    reg = ("attr", S, "_registry")
    problems = []
    apps = [e for e in it.events if e.kind == "call" and e.term[1][0] == "attr" and e.term[1][2] == "append"]
    wr = ("call", ("attr", ("name", "weakref"), "ref"), (vec,), ())
    if len(apps) != 1 or apps[0].term[2] != (wr,):
        problems.append("register does not append exactly one weakref.ref(vec)")
    else:
        a = apps[0]
        lst = a.term[1][1]
        stores = [e for e in it.events if e.kind == "store" and e.term == ("sub", reg, tid)]
        direct = lst[0] == "call" and lst[1] == ("attr", reg, "setdefault") and lst[2] and lst[2][0] == tid
        if not direct and not any(e.value == lst and not e.conds[len(a.conds):] for e in stores):
            problems.append(f"the list receiving the new reference (`{show(lst, it)[:50]}`) is not the one stored under the id")

        def is_self_test(t) -> bool:
            return t[0] == "cmp" and t[1] == "Is" and vec in (t[2], t[3]) and \
                any(x[0] == "call" and x[1][0] == "elem" and not x[2] for x in (t[2], t[3]))
        dup_guard = False
        # (A) a scan of the list that returns when the object is found, before the append
        for lp in it.loops.values():
            if lp.iter == lst and lp.returns:
                for rc in lp.returns:
                    inside = flatten_conds(rc[len(lp.conds):])
                    if len(inside) == 1 and inside[0][1] and is_self_test(inside[0][0]) and inside[0][0][2][1][1] == lst:
                        first_ev = min((e.seq for e in it.events if lp.id in e.loops), default=0)
                        if first_ev < a.seq:
                            dup_guard = True
        # (B) the append happens only if no element of the list is the object: not any(r() is vec for r in lst)
        for t, pol in flatten_conds(a.conds):
            if t[0] == "call" and t[1] == ("name", "any") and len(t[2]) == 1 and not pol and t[2][0][0] == "obj":
                se = single_element(it, t[2][0])
                if se is not None and len(se[0]) == 1 and it.loops[se[0][0]].iter == lst and not se[1] and is_self_test(se[2]):
                    dup_guard = True
        if not dup_guard:
            problems.append("register can add a second reference for an object that is already listed")
    ctx.ob("d.tracker", f, "register", not problems, "register adds one weak reference unless already listed", f.node,
           message="; ".join(problems))
    # unregister: keeps exactly the other live references, deletes the entry when none
    f = prog.func("alias_tracker._AliasTracker.unregister")
    it = SInterp(prog, f)
    S, vec, tid = ("param", f.params[0]), ("param", f.params[1]), ("param", f.params[2])
    reg = ("attr", S, "_registry")
    problems = []
    dels = [e for e in it.events if e.kind == "del" and e.term == ("sub", reg, tid)]
    stores = [e for e in it.events if e.kind == "store" and e.term == ("sub", reg, tid)]
    if not dels:
        problems.append("unregister never deletes an emptied entry")
    if len(stores) != 1 or stores[0].value[0] != "obj":
        problems.append("unregister: the kept references are not stored back as a new list")
    else:
        keep = stores[0].value
        se = single_element(it, keep)
        if se is None or len(se[0]) != 1:
            problems.append("unregister: filter loop not recognised")
        else:
            (L,), extra, val, ev = se
            lp = it.loops[L]
            src = lp.iter
            ok_src = src is not None and any(x == reg for x in subterms(src)) and any(x == tid for x in subterms(src))
            if not ok_src:
                problems.append(f"unregister filters `{show(src, it)[:40]}`, not the references stored under the id")
            if val != ("elem", src, L):
                problems.append("unregister keeps something other than the stored references themselves")
            obj = ("call", ("elem", src, L), (), ())
            got = sorted(map(repr, flatten_conds(extra)))
            want = sorted(map(repr, [(("cmp", "Is", obj, SNONE), False), (("cmp", "Is", obj, vec), False)]))
            if got != want:
                problems.append(f"unregister keeps references under `{show_conds(flatten_conds(extra), it)[:90]}`, expected exactly the live "
                                f"ones that are not the object's own (drops exactly the dead ones and the object's own)")
            sc = flatten_conds(stores[0].conds)
            dc = flatten_conds(dels[0].conds) if dels else []
            if (keep, True) not in sc or (dels and (keep, False) not in dc):
                problems.append("the entry is not deleted exactly when no reference remains")
    ctx.ob("d.tracker", f, "unregister", not problems, "unregister keeps exactly the other live references", f.node,
           message="; ".join(problems))


def _is_live_filter(e: ast.AST, src: Optional[str] = None) -> bool:
    if isinstance(e, ast.ListComp) and len(e.generators) == 1 and len(e.generators[0].ifs) == 1:
        g = e.generators[0]
        if isinstance(g.target, ast.Name):
            r = g.target.id
            cond = short(g.ifs[0])
            if cond in (f"{r}() is not None",) and short(e.elt) in (r, f"{r}()"):
                return src is None or (isinstance(g.iter, ast.Name) and g.iter.id == src) or True
    return False


def _live_list(prog, f, cfg, e: ast.AST, at, depth=0) -> Optional[str]:
    """None if `e` denotes a list holding only live referents (pruned), else a reason."""
    if depth > 4:
        return "definition chain too deep"
    if _is_live_filter(e):
        return None
    if isinstance(e, ast.Call) and attr_chain(e.func) == ["self", "_cleanup_dead_refs"]:
        return None
    if isinstance(e, ast.Name):
        defs = reaching_def_nodes(cfg, e.id, at)
        for d, dn in defs:
            if d is PARAM or not isinstance(d, ast.expr):
                return f"`{e.id}` is not a pruned list"
            r = _live_list(prog, f, cfg, d, dn, depth + 1)
            if r:
                return r
        return None if defs else f"`{e.id}` undefined"
    return f"`{short(e)}` is the raw reference list (dead weak references still counted)"


def _who_calls(ctx) -> None:
    prog = ctx.prog
    callers = set()
    for f in prog.functions.values():
        if isinstance(f.node, ast.Lambda) or f.cls == "_AliasTracker":
            continue
        for m in ("register", "unregister"):
            if tracker_calls(prog, f, m):
                callers.add(f.qualname)
        # also calls not in statement position
        for c in prog.calls_in(f):
            ch = attr_chain(c.func)
            if ch and len(ch) == 2 and ch[0] in tracker_names(f) and ch[1] in ("register", "unregister"):
                callers.add(f.qualname)
    from .c01 import reduce_to_callers
    extra = reduce_to_callers(prog, callers, set(TRACKER_CALLERS))
    ctx.ob("e.who-calls", "package", "tracker-callers", not extra, f"register/unregister called from {sorted(callers)}",
           message=f"unexpected function(s) call the alias tracker: {sorted(extra)}")
    touch = []
    for f in prog.functions.values():
        if f.cls == "_AliasTracker" or isinstance(f.node, ast.Lambda):
            continue
        for n in walk_no_nested(f.node):
            if isinstance(n, ast.Attribute) and n.attr == "_registry":
                touch.append(f"{f.qualname}:{n.lineno}")
    ctx.ob("e.who-calls", "package", "registry-access", not touch, "_registry is touched only inside _AliasTracker",
           message=f"_registry is accessed outside the tracker: {touch}")


def _fresh_storage(ctx) -> None:
    prog = ctx.prog
    f = prog.func("vector.Vector.copy")
    rets = [s for s in walk_stmts(f.body) if isinstance(s, ast.Return)]
    problems = []
    for r in rets:
        v = r.value
        if not (isinstance(v, ast.Call) and isinstance(v.func, ast.Name) and v.func.id == "Vector" and v.args):
            problems.append(f"copy returns `{short(v)}`, not a new Vector")
            continue
        d = v.args[0]
        if not (isinstance(d, ast.Call) and isinstance(d.func, ast.Name) and d.func.id == "list"):
            problems.append(f"copy passes `{short(d, 60)}` to the constructor: a tuple would be adopted as storage unchanged "
                            f"(v[:] of a tuple is the same object), so the copy would share storage with its source")
    ctx.ob("f.fresh-storage", f, "copy-data", not problems and bool(rets), "copy() hands list(...) to Vector(...)",
           rets[0] if rets else f.node, message="; ".join(problems))
    # no operation result is built over an OPERAND's own tuple: a tuple concatenation with a possibly empty other side returns the
    # operand's tuple itself (t + () is t), and a Vector built over an exact tuple adopts it - on the construction sites (sites2)
    from ..sites2 import all_sites2, leaves, strip_seq
    from ..symx import show
    problems = []
    n = 0
    for st in all_sites2(prog):
        if st.kind not in ("Vector", "cls") or st.data is None or st.top.module != "vector":
            continue
        for d in leaves(st.data):
            if d[0] != "bin" or d[1] != "Add":
                continue                        # wrapped in list(...) / a comprehension: a fresh sequence
            n += 1
            a, b = d[2], d[3]

            def own(t) -> bool:
                return t[0] == "attr" and t[2] == "_underlying"

            def never_empty(t) -> bool:
                return t[0] == "tuple" and len(t[1]) >= 1 and not any(x[0] == "star" for x in t[1])
            for x, y in ((a, b), (b, a)):
                if own(x) and not never_empty(y):
                    problems.append(f"{st.top.qualname}: `{show(st.call, st.it)[:60]}` is built over `{show(d, st.it)[:40]}`: when "
                                    f"`{show(y, st.it)[:20]}` is empty the concatenation IS `{show(x, st.it)[:25]}`, so the result shares the "
                                    f"operand's storage and both refuse writes")
                    break
    seen = set()
    problems = [p_ for p_ in problems if not (p_ in seen or seen.add(p_))]
    ctx.ob("f.fresh-storage", prog.func("vector.Vector.__lshift__"), "concatenations", not problems,
           f"{n} tuple concatenation(s) handed to a constructor, none can be an operand's own tuple", message="; ".join(problems[:2]))


_V = "vector"
MUTANTS = [
    dict(id="new-constructs-through-cls", module="vector", old="			return Vector([default_element for _ in range(length)], dtype=dtype)",
         new="			return cls([default_element for _ in range(length)], dtype=dtype)", rules=["b.no-reinit"], desc="reverts fix af39c72"),
    dict(id="lshift-over-operand-tuple", module=_V, old="			return Vector(list(self._underlying + other._underlying))",
         new="			return Vector(self._underlying + other._underlying)", rules=["f.fresh-storage"],
         desc="the defect repaired by fix c37ac98: v << [] shares v's storage"),
    dict(id="empty-storage-refused", module="alias_tracker", old="        if tuple_id == id(()):\n", new="        if False:\n",
         rules=["d.tracker"], desc="the defect repaired by fix 0e8a5d3: all empty vectors share () and refuse writes"),
    dict(id="setitem-drops-unregister", module=_V, old="		_alias.unregister(self, old_id)\n", new="", rules=["a.bracket"]),
    dict(id="setitem-registers-old-id", module=_V, old="		_alias.register(self, id(new_tuple))", new="		_alias.register(self, old_id)",
         rules=["a.bracket"]),
    dict(id="promote-drops-one-register", module=_V, count=4, nth=1,
         old="			_ALIAS_TRACKER.register(self, id(new_tuple))\n", new="", rules=["a.bracket"]),
    dict(id="setitem-old-id-before-promote", module=_V,
         edits=[(_V, "		_alias.check_writable(self, id(self._underlying))\n", "		_alias.check_writable(self, id(self._underlying))\n		old_id = id(self._underlying)\n", 1),
                (_V, "		old_id = id(underlying)\n", "", 1)],
         rules=["a.bracket"], desc="after a promotion the unregister names the pre-promotion tuple"),
    dict(id="table-init-guard-removed", module="table",
         old="		if '_underlying' in self.__dict__:\n			return\n", new="", rules=["b.no-reinit"]),
    dict(id="init-registers-before-store", module=_V,
         edits=[(_V, "		# Register with alias tracker after full initialization\n		_ALIAS_TRACKER.register(self, id(self._underlying))\n", "", 1),
                (_V, "		self._wild = True\n\n		# We check self.__dict__", "		self._wild = True\n		_ALIAS_TRACKER.register(self, id(self._underlying))\n\n		# We check self.__dict__", 1)],
         rules=["c.register-last"]),
    dict(id="check-writable-counts-unpruned", module="alias_tracker",
         old="        if len(owners) <= 1:", new="        if len(refs) <= 1:", rules=["d.tracker"]),
    dict(id="check-writable-threshold", module="alias_tracker",
         old="        if len(owners) <= 1:", new="        if len(owners) < 1:", rules=["d.tracker"]),
    dict(id="register-no-dup-guard", module="alias_tracker",
         old="            if r() is vec:\n                # Already registered, don't add again\n                return\n",
         new="            if r() is vec:\n                pass\n", rules=["d.tracker"]),
    dict(id="replace-column-no-bracket", module="table",
         old="		_ALIAS_TRACKER.unregister(self, id(self._underlying))\n		object.__setattr__(self, '_underlying', new_tuple)\n		_ALIAS_TRACKER.register(self, id(new_tuple))\n",
         new="		object.__setattr__(self, '_underlying', new_tuple)\n", rules=["a.bracket"]),
    dict(id="copy-adopts-tuples", module=_V,
         old="		return Vector(list(self._underlying if new_values is None else new_values),",
         new="		return Vector((self._underlying if new_values is None else new_values),", rules=["f.fresh-storage"]),
    dict(id="sort-by-registers-itself", module=_V,
         old="		new_vector = Vector(new_values, dtype=self._dtype, name=self._name)\n",
         new="		new_vector = Vector(new_values, dtype=self._dtype, name=self._name)\n		_ALIAS_TRACKER.register(self, id(new_values))\n",
         rules=["e.who-calls"]),
    dict(id="twin-rename-old-id", module=_V, twin=True, edits=[(_V, "old_id", "previous_identity", 2)]),
]

"""C12 - group-by aggregation: one row per key in first-appearance order, correct values."""
from __future__ import annotations

import ast

from ..groupsx import GroupModel
from . import grouprules as gr
from . import nameres
from .joinrules import determinism_of_function
from .joinrules import content_writes


def run(ctx) -> None:
    ctx.rule("a.partition", "the partition loop covers range(len(self)), keys are the row's values of ALL key columns in order (None "
                            "not special-cased), a new key starts [row], a repeated key appends the row; groups are the insertion-"
                            "ordered items, never sorted / passed through a set", 1)
    ctx.rule("b.key-columns", "key columns come first, one value per group in group order, named uniquify(stored name; 'key' only for an unnamed column - '' is a name)", 1)
    ctx.rule("c.aggregators", "each built-in aggregate: parameter <-> loop <-> function facts <-> suffix; filter None; textbook reducer; "
                              "empty group -> 0 (sum, count) / None; stdev: at least 2 values, divisor n-1", 6)
    ctx.rule("d.group-values", "each aggregate function is called exactly once per group on that group's values gathered in row order", 1)
    ctx.rule("d.apply", "a custom apply function receives each group's values, None included, in row order, once", 1)
    ctx.rule("e.vector-reductions", "Vector.sum/mean/min/max/stdev are fact-equal to the aggregators", 5)
    ctx.rule("f.guards", "every key and aggregated column is length-checked; keys resolve through _resolve_column", 2)
    ctx.rule("g.name-resolution", "columns given by name resolve by exact stored name first (R-NAME)", 2)
    ctx.rule("h.determinism", "no iteration over sets / hash()/id() as data in aggregate", 1)
    ctx.rule("i.purity", "aggregate writes no content field of self or of the key/aggregated vectors", 1)
    agg = {}

    def build():
        agg["a"] = GroupModel(ctx.prog, "aggregate")
    ctx.section("extract", build)
    if "a" not in agg:
        return
    a = agg["a"]
    w = a          # Vector reductions are compared with aggregate's own aggregators

    def part():
        probs = a.partition_problems()
        ctx.ob("a.partition", a.f, "partition", not probs, "rows partitioned in row order, groups in first-appearance order",
               probs[0][1] if probs else a.f.node, message="aggregate: " + "; ".join(p for p, _ in probs))
    ctx.section("partition", part)
    ctx.section("keys", gr.key_columns, ctx, a, "b.key-columns")
    ctx.section("exit", gr.single_exit, ctx, a, "b.key-columns")
    ctx.section("aggregators", gr.aggregator_table, ctx, a, "c.aggregators")
    ctx.section("flow", gr.group_value_flow, ctx, a, "d.group-values")
    ctx.section("apply", gr.apply_block, ctx, a, "d.apply")

    def sib():
        class Px:
            prog = ctx.prog

            def ob(self, rule, func, role, ok, what, node=None, message="", witness=""):
                if role.startswith("vector~"):
                    return ctx.ob("e.vector-reductions", func, role, ok, what, node, message, witness)
                return ok
        gr.siblings(Px(), a, w, "x")
    ctx.section("vector", sib)
    ctx.section("guards", gr.key_length_guards, ctx, a, "f.guards")
    ctx.section("extreme", _extreme_helper, ctx)
    ctx.section("names", nameres.check, ctx, "g.name-resolution")

    def det():
        probs = []
        for fn in [a.f] + [f for q, f in ctx.prog.functions.items() if q.startswith(a.f.qualname + ".<locals>.") and not isinstance(f.node, ast.Lambda)]:
            probs += [f"{fn.name}: {m}" for m, _ in determinism_of_function(ctx.prog, fn)]
        ctx.ob("h.determinism", a.f, "determinism", not probs, "no hash-order dependence", a.f.node, message="; ".join(probs))
    ctx.section("determinism", det)

    def pure():
        ws = content_writes(ctx.prog, a.f.qualname)
        ctx.ob("i.purity", a.f, "purity", not ws, "no content write on operands", a.f.node,
               message="aggregate modifies its operands: " + "; ".join(f"{x.root}.{x.fld} at {x.func.split('.')[-1]}:{x.line}" for x in ws[:3]))
    ctx.section("purity", pure)
    ctx.not_decided += ["numeric results", "hash/equality behaviour of exotic keys (nan, 1 == 1.0 == True merging groups)"]


def _extreme_helper(ctx) -> None:
    """min / max go through vector._extreme(values, pick) (vocabulary of the aggregator facts): it returns pick(values), and - only in
    the handler of a TypeError (dates next to datetimes) - pick(values, key=_at_midnight): the builtin itself, never another value."""
    from ..symx import Interp as _SI
    from ..symx import kw, show
    prog = ctx.prog
    f = prog.functions.get("vector._extreme")
    if f is None:
        return
    it = _SI(prog, f)
    V, P = ("param", f.params[0]), ("param", f.params[1])
    rets = [e for e in it.events if e.kind == "return" and e.depth == 0]
    probs = []
    def alts(t):
        """alternatives of a returned value: a value bound in the try body or in its handler and returned once is their merge"""
        if t[0] == "phi":
            return [x for y in t[1] for x in alts(y)]
        if t[0] == "ifexp":
            return alts(t[2]) + alts(t[3])
        return [t]
    in_handler = lambda e: any(pol and c[0] == "call" and c[1] == ("name", "<except>") and c[2] and c[2][0] == ("name", "TypeError")
                               for c, pol in e.conds)
    leaves_ = [(e, lf) for e in rets for lf in alts(e.term)]
    plain_t = ("call", P, (V,), ())
    if not any(lf == plain_t for _, lf in leaves_):
        probs.append("no `return pick(values)`")
    for e, lf in leaves_:
        if lf == plain_t:
            continue
        ok = lf[0] == "call" and lf[1] == P and lf[2] == (V,) and kw(lf, "key") == ("name", "_at_midnight") and len(lf[3]) == 1
        # the keyed form is computed only in the handler of a TypeError (the call event itself, wherever its value is returned)
        calls = [c for c in it.events if c.kind == "call" and c.term == lf]
        handled = (in_handler(e) and not calls) or (bool(calls) and all(in_handler(c) for c in calls))
        if not (ok and handled):
            probs.append(f"`return {show(lf, it)[:50]}` is neither pick(values) nor, in the TypeError handler, pick(values, key=_at_midnight)")
    if it.falls_through:
        probs.append("can fall off its end (returning None for a non-empty group)")
    ctx.ob("c.aggregators", f, "extreme-helper", not probs, "_extreme(values, pick) is pick(values), dates widened to midnight on a TypeError",
           f.node, message="vector._extreme: " + "; ".join(probs[:2]))


_T, _V = "table", "vector"
MUTANTS = [
    dict(id="table-taken-for-one-column", module="table", old="			if spec.ndims() == 2:\n", new="			if False:\n", rules=["g.name-resolution"],
         desc="reverts fix 05ef54f"),
    dict(id="aggregate-key-names-left-to-right", module="table", old='\t\t\tif col._name is not None and col._name not in kept_names:\n\t\t\t\tkept_names.add(col._name)\n\t\t\t\tkey_name = col._name\n\t\t\telse:\n\t\t\t\t# (an unnamed key gets a name; \'\' is a name like any other)\n\t\t\t\tkey_name = uniquify(col._name if col._name is not None else "key")\n', new='\t\t\tkey_name = uniquify(col._name if col._name is not None else "key")\n',
         rules=["b.key-columns"], desc="reverts fix 0eb5be7 (the loop; the reservation alone does not keep a key's name)"),
    dict(id="aggregate-stdev-squares-with-pow", module="table",
         old="					variance = sum((v - mean_val) * (v - mean_val) for v in clean) / (n - 1)",
         new="					variance = sum((v - mean_val) ** 2 for v in clean) / (n - 1)", rules=["e.vector-reductions"],
         desc="the defect repaired by fix ea0e8c4: d ** 2 and d * d differ in the last bit for some floats"),
    dict(id="extreme-swallows-type-error", module=_V, old="		return pick(values, key=_at_midnight)", new="		return None", rules=["c.aggregators"],
         desc="min / max of incomparable values become None instead of being compared as dates at midnight"),
    dict(id="extreme-keyed-by-text", module=_V, old="		return pick(values, key=_at_midnight)", new="		return pick(values, key=str)", rules=["c.aggregators"]),
    dict(id="groups-sorted", module=_T, count=2, nth=0, old="		group_items = list(partition_index.items())", new="		group_items = sorted(partition_index.items(), key=repr)",
         rules=["a.partition"]),
    dict(id="min-wired-to-max", module=_T, old="					return _extreme(clean, min) if clean else None\n				\n				aggregate_col(col, min_func, \"min\")",
         new="					return _extreme(clean, max) if clean else None\n				\n				aggregate_col(col, min_func, \"min\")", rules=["c.aggregators"]),
    dict(id="sum-labelled-mean", module=_T, old="					lambda vals, d=d: sum(v for v in vals if v is not None),\n					\"sum\"",
         new="					lambda vals, d=d: sum(v for v in vals if v is not None),\n					\"mean\"", rules=["c.aggregators"]),
    dict(id="apply-gets-clean-values", module=_T, old="					vals = [d[i] for i in row_indices]\n					out.append(func(vals))",
         new="					vals = [d[i] for i in row_indices if d[i] is not None]\n					out.append(func(vals))", rules=["d.apply"]),
    dict(id="none-key-skipped", module=_T, count=1,
         old="			key = tuple(over_data[i][row_idx] for i in range(pk_len))\n			# Small fast-path",
         new="			key = tuple(over_data[i][row_idx] for i in range(pk_len))\n			if key[0] is None:\n				continue\n			# Small fast-path",
         rules=["a.partition"]),
    dict(id="key-column-sorted", module=_T, old="			values = [key[idx] for key, _ in group_items]", new="			values = sorted(key[idx] for key, _ in group_items)",
         rules=["b.key-columns"]),
    dict(id="partition-skips-last-row", module=_T, old="		for row_idx in range(nrows):\n			key = tuple(over_data[i][row_idx] for i in range(pk_len))",
         new="		for row_idx in range(nrows - 1):\n			key = tuple(over_data[i][row_idx] for i in range(pk_len))", rules=["a.partition"]),
    dict(id="aggregate-col-reversed-rows", module=_T, old="				vals = [data[i] for i in row_indices]\n				\n				res = func(vals)",
         new="				vals = [data[i] for i in reversed(row_indices)]\n				\n				res = func(vals)", rules=["d.group-values"]),
    dict(id="vector-max-truthy", module=_V, old="		non_none = [v for v in self._underlying if v is not None]\n		return _extreme(non_none, max) if non_none else None",
         new="		return max(filter(None, self._underlying), default=None)", rules=["e.vector-reductions"]),
    dict(id="resolve-via-sanitised-map", module=_T, old="		if isinstance(spec, str):\n			return self[spec]",
         new="		if isinstance(spec, str):\n			idx = self._current_column_map().get(_sanitize_user_name(spec))\n			if idx is not None:\n				return self._underlying[idx]\n			return self[spec]",
         rules=["g.name-resolution"]),
    dict(id="twin-rename-group-items", module=_T, twin=True, edits=[(_T, "group_items", "groups_in_order", 8)]),
]

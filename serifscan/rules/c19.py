"""C19 - CSV ingestion is faithful to the file.

Mostly a value property over file texts; decided clauses: lexing is delegated to the csv module
with the caller's settings, the per-cell typing order, the shape of the column transposition,
names verbatim from a list (never a dict keyed by name), and the no-data inputs.
"""
from __future__ import annotations

import ast
from typing import List

from ..astutil import Defs
from ..cfg import cfg_of
from ..core import AnalysisError, attr_chain, cshort, kwarg, short, walk_no_nested, walk_stmts


def run(ctx) -> None:
    ctx.rule("a.lexing-delegated", "records come from csv.reader(file_obj, delimiter=<caller's delimiter>); path inputs are opened "
                                   "with newline='' and the caller's encoding; both entry branches forward delimiter and has_header; "
                                   "no manual splitting anywhere in the module", 4)
    ctx.rule("b.cell-typing", "_infer_type: blank (empty or whitespace-only) -> None first, then int(stripped), then float(stripped), "
                              "each catching only ValueError, else the stripped text", 1)
    ctx.rule("c.shape", "one column per header cell (range(len(header))), every data record visited unfiltered, records shorter than the "
                        "header padded with None, cells typed by _infer_type, columns named by the header cell verbatim with no dtype, "
                        "collected in a LIST; header / data split and generated col_i names as documented", 3)
    ctx.rule("d.no-data", "empty input -> empty Table; header-only input -> one empty named column per header cell from a LIST "
                          "(a dict keyed by name would collapse repeats)", 2)
    ctx.section("lexing", _lexing, ctx)
    ctx.section("typing", _typing, ctx)
    ctx.section("shape", _shape, ctx)
    ctx.section("nodata", _nodata, ctx)
    ctx.not_decided.append("round-trip faithfulness of cell texts, quoting, unicode: the csv module's behaviour on concrete inputs")


def _lexing(ctx) -> None:
    prog = ctx.prog
    f = prog.func("csv.read_csv")
    g = prog.func("csv._read_csv_from_file")
    # reader
    readers = [c for c in prog.calls_in(g) if short(c.func) == "csv.reader"]
    ok = len(readers) == 1 and readers[0].args and short(readers[0].args[0]) == g.params[0] \
        and kwarg(readers[0], "delimiter") is not None and short(kwarg(readers[0], "delimiter")) == "delimiter"
    extra = [k.arg for k in readers[0].keywords if k.arg not in ("delimiter",)] if readers else []
    ctx.ob("a.lexing-delegated", g, "reader", ok and not extra, "csv.reader(file_obj, delimiter=delimiter)", readers[0] if readers else g.node,
           message=f"records are read by `{short(readers[0]) if readers else 'no csv.reader call'}`, expected csv.reader(file_obj, "
                   f"delimiter=delimiter) with no other dialect options")
    # open
    opens = [c for c in prog.calls_in(f) if short(c.func) == "open"]
    problems = []
    if len(opens) != 1:
        problems.append(f"{len(opens)} open() calls")
    else:
        o = opens[0]
        nl = kwarg(o, "newline")
        enc = kwarg(o, "encoding")
        if nl is None or not (isinstance(nl, ast.Constant) and nl.value == ""):
            problems.append("the file is not opened with newline='' : universal-newline translation rewrites \\r\\n inside quoted cells")
        if enc is None or short(enc) != "encoding":
            problems.append("the caller's encoding is not used")
        if not o.args or short(o.args[0]) != f.params[0]:
            problems.append("open() is not given the path argument")
        mode = o.args[1].value if len(o.args) > 1 and isinstance(o.args[1], ast.Constant) else (kwarg(o, "mode").value if kwarg(o, "mode") is not None and isinstance(kwarg(o, "mode"), ast.Constant) else "r")
        if "b" in mode or "w" in mode or "a" in mode:
            problems.append(f"file opened in mode {mode!r}")
    ctx.ob("a.lexing-delegated", f, "open", not problems, "open(path, 'r', encoding=encoding, newline='')", opens[0] if opens else f.node,
           message="; ".join(problems))
    # forwarding
    calls = [c for c in prog.calls_in(f) if short(c.func) == "_read_csv_from_file"]
    problems = []
    if len(calls) != 2:
        problems.append(f"{len(calls)} calls of _read_csv_from_file, expected one per input kind (path / file object)")
    for c in calls:
        d, h = kwarg(c, "delimiter"), kwarg(c, "has_header")
        if d is None or short(d) != "delimiter" or h is None or short(h) != "has_header":
            problems.append(f"`{short(c, 70)}` does not forward delimiter and has_header")
    ctx.ob("a.lexing-delegated", f, "forwarding", not problems, "both branches forward delimiter and has_header", f.node, message="; ".join(problems))
    # no manual splitting
    bad = []
    for q, fn in prog.functions.items():
        if fn.module != "csv" or isinstance(fn.node, ast.Lambda):
            continue
        for c in prog.calls_in(fn):
            if isinstance(c.func, ast.Attribute) and c.func.attr in ("split", "splitlines", "rsplit", "partition", "readlines", "readline"):
                bad.append(f"{q}:{c.lineno} `{short(c, 40)}`")
    ctx.ob("a.lexing-delegated", "csv module", "no-manual-split", not bad, "no split/splitlines/readline in the csv module",
           message=f"manual line / field splitting in the csv module: {bad}")


def _typing(ctx) -> None:
    prog = ctx.prog
    f = prog.func("csv._infer_type")
    v = f.params[0]
    body = [s for s in f.body if not (isinstance(s, ast.Expr) and isinstance(s.value, ast.Constant))]
    problems = []
    kinds = []
    for s in body:
        if isinstance(s, ast.If) and isinstance(s.body[0], ast.Return) and short(s.body[0].value) == "None":
            kinds.append("blank")
            t = short(s.test)
            if f"{v}.strip() == ''" not in t and f"not {v}.strip()" not in t:
                problems.append(f"the blank test is `{t}`: whitespace-only cells would not become None")
        elif isinstance(s, ast.Assign) and short(s.value) == f"{v}.strip()" and short(s.targets[0]) == v:
            kinds.append("strip")
        elif isinstance(s, ast.Try):
            r = s.body[0]
            conv = short(r.value.func) if isinstance(r, ast.Return) and isinstance(r.value, ast.Call) else "?"
            kinds.append(conv)
            if not (isinstance(r, ast.Return) and short(r.value) == f"{conv}({v})"):
                problems.append(f"conversion `{short(r, 40)}` is not {conv}(<the stripped text>)")
            hs = [short(h.type) if h.type is not None else "bare" for h in s.handlers]
            if hs != ["ValueError"]:
                problems.append(f"{conv}() failures are caught as {hs}, expected only ValueError")
            if not all(isinstance(x, ast.Pass) for h in s.handlers for x in h.body):
                problems.append(f"a failed {conv}() does not simply fall through to the next candidate")
        elif isinstance(s, ast.Return):
            kinds.append("text")
            if short(s.value) != v:
                problems.append(f"the fallback returns `{short(s.value)}`, not the stripped text")
    if kinds != ["blank", "strip", "int", "float", "text"]:
        problems.append(f"cell typing order is {kinds}, expected blank -> strip -> int -> float -> text")
    ctx.ob("b.cell-typing", f, "order", not problems, "blank -> None; int; float; stripped text", f.node, message="; ".join(problems))


def _roles(prog):
    """Roles of the locals of _read_csv_from_file, found by dataflow: reader, all records, header, data records."""
    g = prog.func("csv._read_csv_from_file")
    d = Defs(g)
    r = {"reader": None, "all": None, "header": None, "rows": None, "hh": None}
    for n, lst in d.assigns.items():
        for v, st, how in lst:
            if v is not None and isinstance(v, ast.Call) and short(v.func) == "csv.reader":
                r["reader"] = n
    for n, lst in d.assigns.items():
        for v, st, how in lst:
            if v is not None and r["reader"] and short(v) == f"list({r['reader']})":
                r["all"] = n
    hh = [s for s in g.body if isinstance(s, ast.If) and short(s.test) == "has_header"]
    if hh and r["all"]:
        r["hh"] = hh[0]
        for s in hh[0].body:
            if isinstance(s, ast.Assign) and isinstance(s.targets[0], ast.Name):
                if short(s.value) == f"{r['all']}[0]":
                    r["header"] = s.targets[0].id
                elif short(s.value) == f"{r['all']}[1:]":
                    r["rows"] = s.targets[0].id
    return g, d, r


def _shape(ctx) -> None:
    prog = ctx.prog
    g, d, R = _roles(prog)
    problems = []
    if not R["reader"] or not R["all"]:
        problems.append("all records are not materialised from csv.reader(...) with list()")
    if not R["header"] or not R["rows"]:
        problems.append("with a header the first record is not taken as header and the rest as data records")
    else:
        hdrs = sorted(cshort(v, {R["all"]: "ALL"}) for v in d.values(R["header"]))
        rows = sorted(cshort(v, {R["all"]: "ALL"}) for v in d.values(R["rows"]))
        if hdrs != sorted(["ALL[0]", "[f'col_{_0}' for _0 in range(len(ALL[0]))]"]):
            problems.append(f"header is {hdrs}; expected the first record, or col_0.. for header-less input")
        if rows != sorted(["ALL[1:]", "ALL"]):
            problems.append(f"data records are {rows}; expected all records but the first with a header, all records without")
    ctx.ob("c.shape", g, "split", not problems, "header / data split", g.node, message="; ".join(problems))
    HEADER, ROWS = R["header"] or "header", R["rows"] or "rows"
    # transposition
    problems = []
    outer = [s for s in g.body if isinstance(s, ast.For)]
    ret = g.body[-1]
    colsv = ret.value.args[0].id if (isinstance(ret, ast.Return) and isinstance(ret.value, ast.Call) and short(ret.value.func) == "Table"
                                     and ret.value.args and isinstance(ret.value.args[0], ast.Name)) else "columns"
    buf = "column_data"
    if len(outer) != 1:
        problems.append("the column loop is not a single top-level loop (zip/zip_longest based transposition takes its width from the "
                        "records, not from the header)")
    else:
        lp = outer[0]
        r = lp.iter
        ci = lp.target.id if isinstance(lp.target, ast.Name) else "?"
        if not (isinstance(r, ast.Call) and short(r.func) == "range" and len(r.args) == 1 and short(d.resolve(r.args[0])) == f"len({HEADER})"):
            problems.append(f"columns range over `{short(r)}`, not range(len(header)): one column per header cell")
        app0 = [n for n in walk_no_nested(lp) if isinstance(n, ast.Call) and short(n.func) == f"{colsv}.append"]
        if app0 and isinstance(app0[0].args[0], ast.Call) and app0[0].args[0].args and isinstance(app0[0].args[0].args[0], ast.Name):
            buf = app0[0].args[0].args[0].id
        inner = [s for s in lp.body if isinstance(s, ast.For)]
        if len(inner) != 1 or short(inner[0].iter) != ROWS:
            problems.append("not every data record is visited for every column")
        else:
            il = inner[0]
            rv = il.target.id
            if len(il.body) != 1 or not isinstance(il.body[0], ast.If):
                problems.append("the per-record body is not the jagged-row if/else")
            else:
                i = il.body[0]
                if short(i.test) != f"{ci} < len({rv})":
                    problems.append(f"short records are detected by `{short(i.test)}`, expected `{ci} < len({rv})`")
                body_t = " ".join(short(x, 100) for x in i.body)
                typed = [n for x in i.body for n in walk_no_nested(x) if isinstance(n, ast.Call) and short(n.func) == "_infer_type" and n.args]
                cell_ok = False
                for n in typed:
                    a0 = n.args[0]
                    if isinstance(a0, ast.Name):
                        defs_ = [x.value for x in i.body if isinstance(x, ast.Assign) and short(x.targets[0]) == a0.id]
                        a0 = defs_[0] if defs_ else a0
                    cell_ok = cell_ok or short(a0) == f"{rv}[{ci}]"
                if not cell_ok:
                    problems.append("present cells are not typed by _infer_type(row[col_idx])")
                if [short(x) for x in i.orelse] != [f"{buf}.append(None)"]:
                    problems.append(f"a record shorter than the header is handled by {[short(x) for x in i.orelse]}, expected one None")
        app = [n for n in walk_no_nested(lp) if isinstance(n, ast.Call) and short(n.func) == f"{colsv}.append"]
        if len(app) != 1 or short(app[0].args[0]) != f"Vector({buf}, name={HEADER}[{ci}])":
            problems.append(f"a column is built as `{short(app[0].args[0], 60) if app else '?'}`, expected Vector(<cells>, "
                            f"name=header[{ci}]) - the header cell verbatim, dtype inferred")
        init = [s for s in lp.body if isinstance(s, ast.Assign) and short(s.targets[0]) == buf]
        if not init or short(init[0].value) != "[]":
            problems.append("the column buffer is not fresh per column")
    cols = d.values(colsv)
    if not cols or short(cols[0]) != "[]":
        problems.append("columns are not collected in a list")
    if not (isinstance(ret, ast.Return) and short(ret.value) == f"Table({colsv})"):
        problems.append(f"returns `{short(ret, 50)}`, expected Table(<list of columns>)")
    ctx.ob("c.shape", g, "transpose", not problems, "column-major transposition with None padding, verbatim names", outer[0] if outer else g.node,
           message="; ".join(problems))
    # R-NAMEKEY: no dict keyed by header / column names on the way to the result
    bad = []
    for n in walk_no_nested(g.node):
        if isinstance(n, (ast.Dict, ast.DictComp)):
            par = prog.parent(n)
            bad.append(f"line {n.lineno}: `{short(par, 70)}`")
        if isinstance(n, ast.Call) and short(n.func) in ("dict", "dict.fromkeys", "OrderedDict"):
            bad.append(f"line {n.lineno}: `{short(n, 60)}`")
    ctx.ob("c.shape", g, "no-name-keyed-dict", not bad, "no dict keyed by column names (repeated header names survive)", g.node,
           message=f"a dict on the path that builds the result table would collapse repeated header names: {bad}")


def _nodata(ctx) -> None:
    prog = ctx.prog
    g, d, R = _roles(prog)
    e = [s for s in g.body if isinstance(s, ast.If) and short(s.test) == f"not {R['all']}"]
    ok = bool(e) and isinstance(e[0].body[0], ast.Return) and short(e[0].body[0].value) in ("Table()", "Table(())", "Table([])")
    ctx.ob("d.no-data", g, "empty", ok, "empty input -> Table()", e[0] if e else g.node, message="empty input does not return an empty Table")
    h = [s for s in g.body if isinstance(s, ast.If) and short(s.test) == f"not {R['rows']}"]
    problems = []
    if not h:
        problems.append("header-only branch not found")
    else:
        r = h[0].body[-1]
        v = cshort(r.value, {R["header"]: "HEADER"}) if isinstance(r, ast.Return) else "?"
        if v not in ("Table([Vector((), name=_0) for _0 in HEADER])", "Table([Vector([], name=_0) for _0 in HEADER])"):
            problems.append(f"header-only input returns `{v}`, expected Table([Vector((), name=col) for col in header]) (a list: repeated "
                            f"names survive; empty data: no truthiness test on a Vector)")
        # must come before the column loop and after the header/rows split
    ctx.ob("d.no-data", g, "header-only", not problems, "header-only input -> one empty named column per header cell", h[0] if h else g.node,
           message="; ".join(problems))
    # R-TRUTH (information): truthiness tests on expressions that may be Vectors
    f = prog.func("vector.Vector.__new__")
    for n in walk_no_nested(f.node):
        if isinstance(n, ast.BoolOp) and any(isinstance(v, ast.Name) and v.id == "initial" for v in n.values):
            ctx.info(f"R-TRUTH: Vector.__new__ tests the truth value of `initial` (`{short(n, 50)}`, line {n.lineno}); if a Vector is passed "
                     f"as data (Vector(v), Table({{'a': v}})) Vector.__bool__ raises TypeError - not on any path of read_csv any more")
            break


_C = "csv"
MUTANTS = [
    dict(id="float-before-int", module=_C,
         edits=[(_C, "    # Try int\n    try:\n        return int(value)\n    except ValueError:\n        pass\n    \n    # Try float\n    try:\n        return float(value)\n    except ValueError:\n        pass",
                 "    # Try float\n    try:\n        return float(value)\n    except ValueError:\n        pass\n    \n    # Try int\n    try:\n        return int(value)\n    except ValueError:\n        pass", 1)],
         rules=["b.cell-typing"]),
    dict(id="blank-test-simplified", module=_C, old="    if not value or value.strip() == '':", new="    if not value:", rules=["b.cell-typing"]),
    dict(id="header-stripped", module=_C, old="        columns.append(Vector(column_data, name=header[col_idx]))",
         new="        columns.append(Vector(column_data, name=header[col_idx].strip()))", rules=["c.shape"]),
    dict(id="short-rows-skipped", module=_C, old="            else:\n                column_data.append(None)", new="            else:\n                continue",
         rules=["c.shape"]),
    dict(id="delimiter-not-forwarded", module=_C, old="        return _read_csv_from_file(file, delimiter=delimiter, has_header=has_header)",
         new="        return _read_csv_from_file(file, delimiter=',', has_header=has_header)", rules=["a.lexing-delegated"]),
    dict(id="dict-keyed-by-header", module=_C, old="        return Table([Vector((), name=col) for col in header])", new="        return Table({col: [] for col in header})",
         rules=["d.no-data", "c.shape"]),
    dict(id="newline-dropped", module=_C, old="        with open(file, 'r', encoding=encoding, newline='') as f:", new="        with open(file, 'r', encoding=encoding) as f:",
         rules=["a.lexing-delegated"]),
    dict(id="width-from-first-record", module=_C, old="    num_cols = len(header)", new="    num_cols = len(rows[0])", rules=["c.shape"]),
    dict(id="unstripped-text-returned", module=_C, old="    value = value.strip()\n", new="    stripped = value.strip()\n", rules=["b.cell-typing"]),
    dict(id="catches-everything", module=_C, count=2, nth=0, old="    except ValueError:\n        pass", new="    except Exception:\n        pass", rules=["b.cell-typing"]),
    dict(id="twin-rename-columns-var", module=_C, twin=True, edits=[(_C, "column_data", "cells", 4)]),
]

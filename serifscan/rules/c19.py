"""C19 - CSV ingestion is faithful to the file.

Mostly a value property over file texts; decided clauses: lexing is delegated to the csv module
with the caller's settings, the per-cell typing order, the shape of the column transposition,
names verbatim from a list (never a dict keyed by name), and the no-data inputs.
"""
from __future__ import annotations

import ast
from typing import List

from ..astutil import Defs
from ..cfg import cfg_of
from ..core import AnalysisError, attr_chain, cshort, kwarg, short, walk_no_nested, walk_stmts


def run(ctx) -> None:
    ctx.rule("a.lexing-delegated", "records come from csv.reader(file_obj, delimiter=<caller's delimiter>); path inputs are opened "
                                   "with newline='' and the caller's encoding; both entry branches forward delimiter and has_header; "
                                   "no manual splitting anywhere in the module", 4)
    ctx.rule("b.cell-typing", "_infer_type: blank (empty or whitespace-only) -> None first, then int(stripped), then float(stripped), "
                              "each catching only ValueError, else the stripped text", 1)
    ctx.rule("c.shape", "one column per header cell (range(len(header))), every data record visited unfiltered, records shorter than the "
                        "header padded with None, cells typed by _infer_type, columns named by the header cell verbatim with no dtype, "
                        "collected in a LIST; header / data split and generated col_i names as documented", 3)
    ctx.rule("d.no-data", "empty input -> empty Table; header-only input -> one empty named column per header cell from a LIST "
                          "(a dict keyed by name would collapse repeats)", 2)
    ctx.section("lexing", _lexing, ctx)
    ctx.section("typing", _typing, ctx)
    ctx.section("shape", _shape, ctx)
    ctx.section("nodata", _nodata, ctx)
    ctx.section("inference", _inference_rule, ctx)
    ctx.not_decided.append("round-trip faithfulness of cell texts, quoting, unicode: the csv module's behaviour on concrete inputs")


def _inference_rule(ctx) -> None:
    """'Column dtypes follow the ordinary inference rule for the cell values': the columns are built with Vector(<cells>) (c.shape), so
    the clause is the inference rule itself - C04's automaton extraction of infer_dtype (order independence, None only adds
    nullability), run here and summarised in one obligation."""
    from . import c04 as _c04

    class _Sum:
        def __init__(self):
            self.prog = ctx.prog
            self.tier = ctx.tier
            self.extra = {}
            self.obligations = []
            self.failed = []
            self.n = 0
            self.exhaustive = True

        def ob(self, rule, func, role, ok, what, node=None, message="", witness=""):
            self.n += 1
            if not ok:
                self.failed.append(f"{rule}/{role}: {message or what}")
            return ok

        def info(self, msg):
            pass

        def rule(self, *a, **k):
            pass
    px = _Sum()
    _c04._automaton(px, _c04.CORE_TAGS + _c04.SUB_TAGS, list(_c04.CORE_TAGS))
    f = ctx.prog.func("typing.infer_dtype")
    ctx.ob("c.shape", f, "inference-rule", not px.failed and px.n > 0,
           f"infer_dtype satisfies the {px.n} obligations of C04's automaton (order independence, None adds nullability only)", f.node,
           message="the inference rule that types every CSV column is broken: " + "; ".join(px.failed[:2])[:600])


def _lexing(ctx) -> None:
    prog = ctx.prog
    f = prog.func("csv.read_csv")
    g = prog.func("csv._read_csv_from_file")
    # reader
    readers = [c for c in prog.calls_in(g) if short(c.func) == "csv.reader"]
    ok = len(readers) == 1 and readers[0].args and short(readers[0].args[0]) == g.params[0] \
        and kwarg(readers[0], "delimiter") is not None and short(kwarg(readers[0], "delimiter")) == "delimiter"
    extra = [k.arg for k in readers[0].keywords if k.arg not in ("delimiter",)] if readers else []
    ctx.ob("a.lexing-delegated", g, "reader", ok and not extra, "csv.reader(file_obj, delimiter=delimiter)", readers[0] if readers else g.node,
           message=f"records are read by `{short(readers[0]) if readers else 'no csv.reader call'}`, expected csv.reader(file_obj, "
                   f"delimiter=delimiter) with no other dialect options")
    # open
    opens = [c for c in prog.calls_in(f) if short(c.func) == "open"]
    problems = []
    if len(opens) != 1:
        problems.append(f"{len(opens)} open() calls")
    else:
        o = opens[0]
        nl = kwarg(o, "newline")
        enc = kwarg(o, "encoding")
        if nl is None or not (isinstance(nl, ast.Constant) and nl.value == ""):
            problems.append("the file is not opened with newline='' : universal-newline translation rewrites \\r\\n inside quoted cells")
        if enc is None or short(enc) != "encoding":
            problems.append("the caller's encoding is not used")
        if not o.args or short(o.args[0]) != f.params[0]:
            problems.append("open() is not given the path argument")
        mode = o.args[1].value if len(o.args) > 1 and isinstance(o.args[1], ast.Constant) else (kwarg(o, "mode").value if kwarg(o, "mode") is not None and isinstance(kwarg(o, "mode"), ast.Constant) else "r")
        if "b" in mode or "w" in mode or "a" in mode:
            problems.append(f"file opened in mode {mode!r}")
    ctx.ob("a.lexing-delegated", f, "open", not problems, "open(path, 'r', encoding=encoding, newline='')", opens[0] if opens else f.node,
           message="; ".join(problems))
    # which inputs count as a path: strings and path objects (os.PathLike) - on the symx log, the condition under which open() runs
    from ..sites2 import interp_of
    from ..symx import flatten_conds, subterms
    it = interp_of(prog, f)
    FILE = ("param", f.params[0])
    problems = []
    for e in it.events:
        if e.kind == "call" and e.term[1] == ("name", "open"):
            kinds = set()
            for t, pol in flatten_conds(e.conds):
                if pol and t[0] == "call" and t[1] == ("name", "isinstance") and len(t[2]) == 2 and t[2][0] == FILE:
                    ks = t[2][1]
                    for x in ([ks] if ks[0] != "tuple" else list(ks[1])):
                        kinds.add(x[1] if x[0] == "name" else x[2] if x[0] == "attr" else "?")
            if "str" not in kinds:
                problems.append("a string path is not opened")
            if not kinds & {"PathLike", "Path", "PurePath"}:
                problems.append("a path OBJECT (os.PathLike, e.g. pathlib.Path) is not treated as a path: it is handed to csv.reader like an "
                                "open file and read_csv raises TypeError")
    ctx.ob("a.lexing-delegated", f, "path-kinds", not problems, "str and os.PathLike inputs are opened", f.node, message="; ".join(problems))
    # forwarding
    calls = [c for c in prog.calls_in(f) if short(c.func) == "_read_csv_from_file"]
    problems = []
    if len(calls) != 2:
        problems.append(f"{len(calls)} calls of _read_csv_from_file, expected one per input kind (path / file object)")
    for c in calls:
        d, h = kwarg(c, "delimiter"), kwarg(c, "has_header")
        if d is None or short(d) != "delimiter" or h is None or short(h) != "has_header":
            problems.append(f"`{short(c, 70)}` does not forward delimiter and has_header")
    ctx.ob("a.lexing-delegated", f, "forwarding", not problems, "both branches forward delimiter and has_header", f.node, message="; ".join(problems))
    # no manual splitting
    bad = []
    for q, fn in prog.functions.items():
        if fn.module != "csv" or isinstance(fn.node, ast.Lambda):
            continue
        for c in prog.calls_in(fn):
            if isinstance(c.func, ast.Attribute) and c.func.attr in ("split", "splitlines", "rsplit", "partition", "readlines", "readline"):
                bad.append(f"{q}:{c.lineno} `{short(c, 40)}`")
    ctx.ob("a.lexing-delegated", "csv module", "no-manual-split", not bad, "no split/splitlines/readline in the csv module",
           message=f"manual line / field splitting in the csv module: {bad}")


def _typing(ctx) -> None:
    from ..symx import Interp as SInterp
    from ..symx import NONE as SNONE
    from ..symx import const, show, show_conds, subterms
    prog = ctx.prog
    f = prog.func("csv._infer_type")
    it = SInterp(prog, f)
    v = ("param", f.params[0])
    T = ("call", ("attr", v, "strip"), (), ())
    problems = []
    rets = [e for e in it.events if e.kind == "return" and e.depth == 0]
    kinds = []
    excepts_seen: List = []

    def blank_lit(t, pol) -> bool:
        """does (t, pol) say: the stripped text is empty?"""
        if t == ("cmp", "Eq", T, const("")) and pol:
            return True
        if t == T and not pol:
            return True
        if t[0] == "bool" and t[1] == "or" and pol:
            return any(blank_lit(x, True) or (x[0] == "un" and x[1] == "Not" and x[2] == T) for x in t[2])
        return False
    blank_covered = False
    for e in rets:
        t = e.term
        exc = [c for c, pol in e.conds if c[0] == "call" and c[1] == ("name", "<except>") and pol]
        if t == SNONE:
            kinds.append("blank")
            if e.conds and blank_lit(*e.conds[-1]):
                blank_covered = True
            elif not (e.conds and (e.conds[-1] == (v, False) or blank_lit(*e.conds[-1]))):
                problems.append(f"None is returned under `{show_conds(e.conds[-1:], it)[:60]}`")
        elif t[0] == "call" and t[1][0] == "name" and t[1][1] in ("int", "float") and len(t[2]) == 1:
            kinds.append(t[1][1])
            if t[2] != (T,):
                problems.append(f"conversion `{show(t, it)[:40]}` is not {t[1][1]}(<the stripped text>)")
            excepts_seen.append(exc)
        else:
            kinds.append("text")
            if t != T:
                problems.append(f"the fallback returns `{show(t, it)[:40]}`, not the stripped text")
            excepts_seen.append(exc)
    if not blank_covered:
        problems.append("no `return None` is taken exactly when the STRIPPED text is empty: whitespace-only cells would not become None")
    dedup = [k for i, k in enumerate(kinds) if i == 0 or kinds[i - 1] != k]
    if dedup != ["blank", "int", "float", "text"]:
        problems.append(f"cell typing order is {dedup}, expected blank -> int -> float -> text (on the stripped text)")
    # each failed conversion is caught as ValueError only, and falls through to the next candidate
    allexc = []
    for e in it.events:
        for c, pol in e.conds:
            if c[0] == "call" and c[1] == ("name", "<except>") and c not in allexc:
                allexc.append(c)
    hs = [show(c[2][0], it) for c in allexc]
    if any(h != "ValueError" for h in hs):
        problems.append(f"conversion failures are caught as {hs}, expected only ValueError")
    if dedup == ["blank", "int", "float", "text"] and [len(x) for x in excepts_seen] != [0, 1, 2]:
        problems.append("a failed conversion does not simply fall through to the next candidate")
    for e in it.events:
        if e.kind in ("store", "raise", "yield") or (e.kind == "call" and e.term[1][0] == "name" and e.term[1][1] not in ("int", "float")):
            problems.append(f"unexpected effect in the cell typer: `{show(e.term, it)[:50]}`")
    seen = set()
    problems = [p for p in problems if not (p in seen or seen.add(p))]
    ctx.ob("b.cell-typing", f, "order", not problems, "blank -> None; int; float; stripped text", f.node, message="; ".join(problems))


class _Csv:
    """Roles of _read_csv_from_file as terms: reader, all records, header, data records."""

    def __init__(self, prog):
        from ..symx import Interp as SInterp
        from ..symx import const
        self.g = g = prog.func("csv._read_csv_from_file")
        self.it = it = SInterp(prog, g)
        self.reader = None
        for e in it.events:
            if e.kind == "call" and e.term[1] == ("attr", ("name", "csv"), "reader"):
                self.reader = e.term
        self.all = None
        for oid, o in it.objs.items():
            if o.kind == "list" and isinstance(o.node, ast.Call) and self.reader is not None and o.init == (self.reader,):
                self.all = ("obj", oid)
        self.hh = ("param", "has_header")

    def header_forms(self):
        from ..symx import const
        A = self.all
        return ("sub", A, const(0)), ("sub", A, ("slice", const(1), ("const", "NoneType", None), ("const", "NoneType", None)))


def _shape(ctx) -> None:
    from ..symx import NONE as SNONE
    from ..symx import const, elements, kw, show, show_conds
    prog = ctx.prog
    R = _Csv(prog)
    g, it = R.g, R.it
    sh = lambda t, n=60: show(t, it)[:n] if t is not None else "?"
    problems = []
    if R.reader is None or R.all is None:
        problems.append("all records are not materialised from csv.reader(...) with list()")
        ctx.ob("c.shape", g, "split", False, "", g.node, message="; ".join(problems))
        return
    first, rest = R.header_forms()
    rets = [e for e in it.events if e.kind == "return" and e.depth == 0]
    final = max(rets, key=lambda e: e.seq)
    cols = final.term[2][0] if (final.term[0] == "call" and final.term[1] == ("name", "Table") and len(final.term[2]) == 1) else None
    header = rows = None
    tp = []
    if cols is None or cols[0] != "obj" or it.objs[cols[1]].kind not in ("list", "listcomp"):
        tp.append(f"returns `{sh(final.term)}`, expected Table(<list of columns>)")
    else:
        els = elements(it, cols)
        if len(els) != 1 or it.objs[cols[1]].init:
            tp.append("the column loop is not a single pass (zip/zip_longest based transposition takes its width from the records, not from "
                      "the header)")
        else:
            ce = els[0]
            vec = ce.value if ce.kind == "elem" else (ce.term[2][0] if ce.term[2] else None)
            lps = [L for L in ce.loops if L not in it.objs[cols[1]].loops]
            if len(lps) != 1 or vec is None or not (vec[0] == "call" and vec[1] == ("name", "Vector") and vec[2]):
                tp.append(f"a column is built as `{sh(vec)}`, expected Vector(<cells>, name=<header cell>)")
            else:
                Lc = lps[0]
                lc = it.loops[Lc]
                nm = kw(vec, "name")
                if nm is not None and nm[0] == "elem" and nm[2] == Lc:
                    header = nm[1]
                if header is None:
                    tp.append(f"a column is named `{sh(nm)}`, expected the header cell of its own position, verbatim")
                else:
                    dom = lc.domain if (lc.domain is not None and lc.domain[0] != "tuple") else (lc.iter if lc.range is None else None)
                    covers = (dom == header) or (lc.range is not None and lc.range[0] == const(0) and lc.range[2] == const(1)
                                                 and lc.range[1] == ("call", ("name", "len"), (header,), ()))
                    if not covers:
                        tp.append(f"columns range over `{sh(lc.iter)}`, not over the header positions: one column per header cell")
                if kw(vec, "dtype") is not None or len(vec[2]) > 1:
                    tp.append("a column is given an explicit dtype")
                if ce.conds[len(lc.conds):]:
                    tp.append(f"a column is produced only under `{show_conds(ce.conds[len(lc.conds):], it)[:50]}`")
                data = vec[2][0]
                if data[0] != "obj" or it.objs[data[1]].kind not in ("list", "listcomp") or it.objs[data[1]].init:
                    tp.append(f"column cells are `{sh(data)}`, not a list filled from the data records")
                else:
                    if Lc not in it.objs[data[1]].loops:
                        tp.append("the column buffer is not fresh per column")
                    des = elements(it, data)
                    rowloops = {tuple(L for L in d.loops if L not in ce.loops) for d in des}
                    if len(rowloops) != 1 or len(next(iter(rowloops))) != 1:
                        tp.append("not every data record is visited exactly once for every column")
                    else:
                        Lr = next(iter(rowloops))[0]
                        rows = it.loops[Lr].iter
                        row = ("elem", rows, Lr)
                        cell = ("call", ("name", "_infer_type"), (("sub", row, ("idx", Lc)),), ())
                        present = ("cmp", "Lt", ("idx", Lc), ("call", ("name", "len"), (row,), ()))
                        base = len(it.loops[Lr].conds)
                        got = []
                        for d in des:
                            val = d.value if d.kind == "elem" else (d.term[2][0] if d.term[2] else None)
                            got.append((tuple(d.conds[base:]), val))
                        okc = False
                        ln_row = ("call", ("name", "len"), (row,), ())

                        def canon(c, pol):
                            """`col < len(row)` in any of its spellings (col >= len(row) negated, len(row) > col, len(row) <= col negated)"""
                            if c[0] == "cmp" and c[2] == ("idx", Lc) and c[3] == ln_row and c[1] in ("Lt", "GtE"):
                                return (present, pol if c[1] == "Lt" else not pol)
                            if c[0] == "cmp" and c[3] == ("idx", Lc) and c[2] == ln_row and c[1] in ("Gt", "LtE"):
                                return (present, pol if c[1] == "Gt" else not pol)
                            return (c, pol)
                        if len(got) == 2:
                            m = {tuple(canon(c, pol) for c, pol in cs): v for cs, v in got}
                            okc = m.get(((present, True),)) == cell and m.get(((present, False),)) == SNONE
                        elif len(got) == 1 and not got[0][0] and got[0][1][0] == "ifexp":
                            c_, pol_ = canon(got[0][1][1], True)
                            alt = (got[0][1][2], got[0][1][3]) if pol_ else (got[0][1][3], got[0][1][2])
                            okc = c_ == present and alt == (cell, SNONE)
                        if not okc:
                            desc = "; ".join(f"{show_conds(c, it)[:40]} -> {sh(v, 40)}" for c, v in got)
                            tp.append(f"cells are filled as [{desc}]: expected _infer_type(row[col]) when the record has that field, one None "
                                      f"otherwise, for EVERY data record")
    # header / rows provenance
    hp = []
    if header is not None:
        want_h = ("ifexp", R.hh, first, None)
        ok_h = header[0] == "ifexp" and header[1] == R.hh and header[2] == first and _is_generated_names(it, header[3], R.all)
        if not ok_h:
            hp.append(f"header is `{sh(header, 90)}`; expected the first record, or col_0.. up to the length of the LONGEST record for "
                      f"header-less input (the first record does not fix the width: its later fields would be dropped)")
    if rows is not None:
        if rows != ("ifexp", R.hh, rest, R.all):
            hp.append(f"data records are `{sh(rows, 90)}`; expected all records but the first with a header, all records without")
    if header is None or rows is None:
        hp.append("header / data records of the transposition not identified")
    ctx.ob("c.shape", g, "split", not hp, "header / data split", g.node, message="; ".join(hp))
    ctx.ob("c.shape", g, "transpose", not tp, "column-major transposition with None padding, verbatim names", final.node,
           message="; ".join(tp))
    # R-NAMEKEY: no dict keyed by header / column names on the way to the result
    bad = []
    for n in walk_no_nested(g.node):
        if isinstance(n, (ast.Dict, ast.DictComp)):
            par = prog.parent(n)
            bad.append(f"line {n.lineno}: `{short(par, 70)}`")
        if isinstance(n, ast.Call) and short(n.func) in ("dict", "dict.fromkeys", "OrderedDict"):
            bad.append(f"line {n.lineno}: `{short(n, 60)}`")
    ctx.ob("c.shape", g, "no-name-keyed-dict", not bad, "no dict keyed by column names (repeated header names survive)", g.node,
           message=f"a dict on the path that builds the result table would collapse repeated header names: {bad}")


def _is_generated_names(it, t, ALL) -> bool:
    """[f'col_{i}' for i in range(<number of fields of the LONGEST record>)]: without a header no record fixes the width, and
    "records shorter than the header are padded" must not turn into "fields beyond the first record's are dropped"."""
    from ..symx import NONE as SNONE
    from ..symx import const
    if t[0] != "obj" or it.objs[t[1]].kind != "listcomp":
        return False
    evs = [e for e in it.events if e.kind == "elem" and e.term == t]
    if len(evs) != 1:
        return False
    e = evs[0]
    lps = [L for L in e.loops if L not in it.objs[t[1]].loops]
    if len(lps) != 1:
        return False
    lp = it.loops[lps[0]]
    rng = lp.range is not None and lp.range[0] == const(0) and lp.range[2] == const(1) and _is_max_width(it, lp.range[1], ALL)
    val = e.value == ("fstr", (const("col_"), ("fmt", ("idx", lp.id), -1, SNONE)))
    return bool(rng and val and e.conds == it.objs[t[1]].conds)


def _is_max_width(it, b, ALL) -> bool:
    """max(len(r) for r in ALL) / max([len(r) for r in ALL]) / max(map(len, ALL)), optionally with default=0"""
    from ..symx import const, kw
    if not (b[0] == "call" and b[1] == ("name", "max") and len(b[2]) == 1):
        return False
    if b[3] and not (len(b[3]) == 1 and kw(b, "default") == const(0)):
        return False
    g = b[2][0]
    if g == ("call", ("name", "map"), (("name", "len"), ALL), ()):
        return True
    if g[0] == "obj" and it.objs[g[1]].kind in ("genexp", "listcomp"):
        evs = [e for e in it.events if e.kind == "elem" and e.term == g]
        if len(evs) != 1:
            return False
        e = evs[0]
        lps = [L for L in e.loops if L not in it.objs[g[1]].loops]
        if len(lps) != 1 or it.loops[lps[0]].iter != ALL or e.conds != it.objs[g[1]].conds:
            return False
        return e.value == ("call", ("name", "len"), (("elem", ALL, lps[0]),), ())
    return False


def _nodata(ctx) -> None:
    from ..symx import const, elements, kw, show
    prog = ctx.prog
    R = _Csv(prog)
    g, it = R.g, R.it
    rets = [e for e in it.events if e.kind == "return" and e.depth == 0]
    empty = [e for e in rets if e.conds and e.conds[-1] == (R.all, False)]
    ok = len(empty) == 1 and empty[0].term[0] == "call" and empty[0].term[1] == ("name", "Table") and not empty[0].term[3] and (
        not empty[0].term[2] or (empty[0].term[2][0][0] == "tuple" and not empty[0].term[2][0][1])
        or (empty[0].term[2][0][0] == "obj" and not it.objs[empty[0].term[2][0][1]].init and not elements(it, empty[0].term[2][0])))
    ctx.ob("d.no-data", g, "empty", ok, "empty input -> Table()", empty[0].node if empty else g.node,
           message="empty input does not return an empty Table")
    first, rest = R.header_forms()
    rows = ("ifexp", R.hh, rest, R.all)
    ho = [e for e in rets if e.conds and e.conds[-1] == (rows, False)]
    problems = []
    if len(ho) != 1:
        problems.append("header-only branch not found (a return taken exactly when there are no data records)")
    else:
        t = ho[0].term
        okh = False
        if t[0] == "call" and t[1] == ("name", "Table") and len(t[2]) == 1 and t[2][0][0] == "obj" \
                and it.objs[t[2][0][1]].kind in ("listcomp", "list"):
            els = elements(it, t[2][0])
            if len(els) == 1:
                e = els[0]
                v = e.value if e.kind == "elem" else (e.term[2][0] if e.term[2] else None)
                lps = [L for L in e.loops if L not in it.objs[t[2][0][1]].loops]
                if len(lps) == 1 and v is not None and v[0] == "call" and v[1] == ("name", "Vector") and len(v[2]) == 1 \
                        and kw(v, "dtype") is None:
                    d0 = v[2][0]
                    empty_data = (d0[0] == "tuple" and not d0[1]) or (d0[0] == "obj" and not it.objs[d0[1]].init and not elements(it, d0))
                    hdr = it.loops[lps[0]].iter
                    okh = empty_data and kw(v, "name") == ("elem", hdr, lps[0]) and hdr is not None and hdr[0] == "ifexp" \
                        and hdr[2] == first and not e.conds[len(it.objs[t[2][0][1]].conds):]
        if not okh:
            problems.append(f"header-only input returns `{show(t, it)[:80]}`, expected Table([Vector((), name=col) for col in header]) (a list: "
                            f"repeated names survive; empty data: no truthiness test on a Vector)")
    ctx.ob("d.no-data", g, "header-only", not problems, "header-only input -> one empty named column per header cell", ho[0].node if ho else g.node,
           message="; ".join(problems))


_C = "csv"
MUTANTS = [
    dict(id="headerless-width-from-first-record", module=_C,
         old="range(max(len(row) for row in all_rows))]", new="range(len(all_rows[0]))]", rules=["c.shape"],
         desc="reverts fix 33a226e: '1\\n2,3\\n' without a header loses the 3"),
    dict(id="twin-headerless-width-map", module=_C, twin=True,
         old="range(max(len(row) for row in all_rows))]", new="range(max(map(len, all_rows)))]"),

    dict(id="path-objects-not-opened", module="csv", old="    if isinstance(file, (str, os.PathLike)):", new="    if isinstance(file, str):",
         rules=["a.lexing-delegated"], desc="the defect repaired by fix fe9aef7: read_csv(pathlib.Path(...)) raises TypeError"),
    dict(id="float-before-int", module=_C,
         edits=[(_C, "    # Try int\n    try:\n        return int(value)\n    except ValueError:\n        pass\n    \n    # Try float\n    try:\n        return float(value)\n    except ValueError:\n        pass",
                 "    # Try float\n    try:\n        return float(value)\n    except ValueError:\n        pass\n    \n    # Try int\n    try:\n        return int(value)\n    except ValueError:\n        pass", 1)],
         rules=["b.cell-typing"]),
    dict(id="blank-test-simplified", module=_C, old="    if not value or value.strip() == '':", new="    if not value:", rules=["b.cell-typing"]),
    dict(id="header-stripped", module=_C, old="        columns.append(Vector(column_data, name=header[col_idx]))",
         new="        columns.append(Vector(column_data, name=header[col_idx].strip()))", rules=["c.shape"]),
    dict(id="short-rows-skipped", module=_C, old="            else:\n                column_data.append(None)", new="            else:\n                continue",
         rules=["c.shape"]),
    dict(id="delimiter-not-forwarded", module=_C, old="        return _read_csv_from_file(file, delimiter=delimiter, has_header=has_header)",
         new="        return _read_csv_from_file(file, delimiter=',', has_header=has_header)", rules=["a.lexing-delegated"]),
    dict(id="dict-keyed-by-header", module=_C, old="        return Table([Vector((), name=col) for col in header])", new="        return Table({col: [] for col in header})",
         rules=["d.no-data", "c.shape"]),
    dict(id="newline-dropped", module=_C, old="        with open(file, 'r', encoding=encoding, newline='') as f:", new="        with open(file, 'r', encoding=encoding) as f:",
         rules=["a.lexing-delegated"]),
    dict(id="width-from-first-record", module=_C, old="    num_cols = len(header)", new="    num_cols = len(rows[0])", rules=["c.shape"]),
    dict(id="unstripped-text-returned", module=_C, old="    value = value.strip()\n", new="    stripped = value.strip()\n", rules=["b.cell-typing"]),
    dict(id="catches-everything", module=_C, count=2, nth=0, old="    except ValueError:\n        pass", new="    except Exception:\n        pass", rules=["b.cell-typing"]),
    dict(id="twin-rename-columns-var", module=_C, twin=True, edits=[(_C, "column_data", "cells", 4)]),
]

"""C10 - left and full outer joins keep every row and pad with None.

Same extraction as C09 on `join` and `full_join`, plus the completeness structure:
every probe iteration emits (C10.a), unmatched left rows are padded with None per right
column (C10.b), the full join's sweep appends exactly the right rows that took part in no
pair, in right-table order (C10.c), and the matched-pair block is fact-equal to
inner_join's, so inner ⊆ left ⊆ full holds by construction (C10.d).
"""
from __future__ import annotations

from ..core import AnalysisError

from ..joinsx import JoinModel, JoinOrderViolation
from . import joinrules as jr
from . import nameres


def run(ctx) -> None:
    ctx.rule("a.left-complete", "no continue/break/return in the probe loop; `if bucket:` matched block (once per bucket "
                                "element) else unconditional padded row: every left row emits at its own position", 2)
    ctx.rule("a.no-early-result", "every return of join / full_join follows the index, probe and sweep loops: no fast path can "
                                  "drop the None padding or the rows of a side", 2)
    ctx.rule("b.padding", "unmatched left row = its own values in all LEFT buffers + None once per RIGHT column", 2)
    ctx.rule("c.sweep", "full_join records the right row of every emitted pair; a sweep over range(len(other)) after the "
                        "probe loop emits exactly the unrecorded rows: None per LEFT column + the row's RIGHT values", 1)
    ctx.rule("c.buffers", "typed buffer discipline in every emission block (as C09.c)", 2)
    ctx.rule("d.containment", "matched-pair block of join/full_join fact-equal to inner_join's", 2)
    ctx.rule("e.loops-keys", "index/probe loops cover all rows, keys paired consistently (as C09.a/b)", 2)
    ctx.rule("e.wrap", "result columns wrapped left-then-right under source names, dtype inferred (None padding "
                       "makes the columns nullable only through inference)", 2)
    ctx.rule("f.name-resolution", "by-name keys resolve through exact stored-name lookup (R-NAME)", 2)
    ctx.rule("g.purity", "join / full_join write no content field of self/other", 2)
    ctx.rule("h.determinism", "no iteration over sets, no hash() / id() / fingerprint() standing in for contents in join / full_join and "
                              "their helpers (also helpers introduced later): a row is paired by its key values only", 2)
    ctx.section("name-resolution", nameres.check, ctx, "f.name-resolution")
    # (`keeps every left row`: a left row is also lost when the join REFUSES an admissible key pair - an all-None key column on
    #  either side against a typed one; the rejections of _validate_join_keys, shared with C09.a)
    ctx.rule("i.key-validation", "_validate_join_keys rejects on spec form, lengths and key KIND only (as C09.a): an all-None / nullable key "
                                 "column on either side is admitted, so every left row is kept and padded", 1)
    ctx.section("key-validation", jr.key_validation, ctx, "i.key-validation")
    facts = {}

    def inner():
        facts["inner_join"] = JoinModel(ctx.prog, "inner_join")
    ctx.section("inner_join-facts", inner)
    for v in ("join", "full_join"):
        def one(v=v):
            try:
                jf = JoinModel(ctx.prog, v)
            except JoinOrderViolation as ex:
                ctx.ob("e.loops-keys", ctx.prog.func(f"table.Table.{v}"), "emission-order", False, "", ex.node, message=str(ex))
                return
            facts[v] = jf
            jr.no_early_result(ctx, jf, "a.no-early-result")
            jr.left_complete(ctx, jf)
            jr.padding(ctx, jf)
            if v == "full_join":
                jr.sweep(ctx, jf)
            jr.buffers(ctx, jf, want_contexts=("matched", "unmatched-left") + (("sweep",) if v == "full_join" else ()))
            _ab(ctx, jf)
            jr.wrap(ctx, jf)
        ctx.section(f"determinism:{v}", jr.determinism, ctx, v, "h.determinism")
        ctx.section(f"join-structure:{v}", one)
        ctx.section(f"purity:{v}", jr.purity, ctx, v)

    def sib():
        if "inner_join" not in facts:
            raise AnalysisError("containment needs inner_join's facts")
        ref = jr.matched_facts(facts["inner_join"])
        for v in ("join", "full_join"):
            if v not in facts:
                raise AnalysisError(f"containment needs {v}'s facts")
            jf = facts[v]
            mf = jr.matched_facts(jf)
            ctx.ob("d.containment", jf.f, "matched-block", mf == ref and mf is not None,
                   f"{v}: matched emission facts equal inner_join's", jr.matched_block(jf) or jf.f.node,
                   message=f"{v}: matched-pair emission differs from inner_join's, so inner ⊆ {v} is not structural: "
                           f"inner_join {ref} vs {v} {mf}")
    ctx.section("containment", sib)
    ctx.not_decided += [
        "the multiset symmetry full_join(L,R) ~ full_join(R,L) as a value equation",
        "equality/hash behaviour of key values at run time",
    ]


def _ab(ctx, jf):
    """C09.a/b facts for this variant under C10's own rule id."""
    class Proxy:
        def __init__(self, ctx):
            self.ctx = ctx
            self.probs = []
            self.prog = ctx.prog

        def ob(self, rule, func, role, ok, what, node=None, message="", witness=""):
            if not ok:
                self.probs.append((message or what, node))
            return ok
    px = Proxy(ctx)
    jr.key_symmetry(px, jf)
    jr.loops(px, jf)
    ctx.ob("e.loops-keys", jf.f, "loops-keys", not px.probs, f"{jf.variant}: loops cover all rows, keys consistent",
           px.probs[0][1] if px.probs else jf.f.node, message="; ".join(p for p, _ in px.probs))


_PAD = "				for offset in range(n_right_cols):\n					result_append_cols[base + offset](None)"
MUTANTS = [
    dict(id="full-join-empty-guard-or", module="table", old="		# 8. Wrap into Vectors with names preserved\n",
         new="		if left_nrows == 0 or right_nrows == 0:\n			return Table(())\n		# 8. Wrap into Vectors with names preserved\n", rules=["a.no-early-result"],
         desc="a full join with one empty side loses all rows of the other"),
    dict(id="left-join-empty-guard-on-right", module="table", old="		# Wrap result_data into Vectors, preserving column names\n",
         new="		if right_nrows == 0:\n			return Table(())\n		# Wrap result_data into Vectors, preserving column names\n", rules=["a.no-early-result"]),
    dict(id="left-join-continue-on-unmatched", module="table",
         old="			else:\n				# No match: left row with None for all right columns\n				for c_idx, col in enumerate(left_cols):",
         new="			else:\n				if not right_index:\n					continue\n				# No match: left row with None for all right columns\n				for c_idx, col in enumerate(left_cols):",
         rules=["a.left-complete"]),
    dict(id="left-join-pads-n_left-times", module="table", old=_PAD,
         new="				for offset in range(n_left_cols):\n					result_append_cols[base + offset](None)",
         rules=["b.padding", "c.buffers"]),
    dict(id="left-join-pads-with-last-right-row", module="table", old=_PAD,
         new="				for offset, col in enumerate(right_cols):\n					result_append_cols[base + offset](col[-1])",
         rules=["b.padding"]),
    dict(id="left-join-break-when-right-exhausted", module="table",
         old="			matches = right_index_get(key)\n			\n			if matches:\n				# For each matching right row, append combined row",
         new="			matches = right_index_get(key)\n			if expect == 'one_to_one' and len(left_keys_seen) > right_nrows:\n				break\n			\n			if matches:\n				# For each matching right row, append combined row",
         rules=["a.left-complete"]),
    dict(id="full-join-add-outside-loop", module="table",
         old="				for right_idx in matches:\n					matched_right_add(right_idx)\n					\n					# Left",
         new="				matched_right_add(matches[0])\n				for right_idx in matches:\n					\n					# Left",
         rules=["c.sweep"]),
    dict(id="full-join-sweep-inverted", module="table",
         old="			if right_idx not in matched_right_rows:", new="			if right_idx in matched_right_rows:", rules=["c.sweep"]),
    dict(id="full-join-sweep-over-buckets", module="table",
         old="		for right_idx in range(right_nrows):\n			if right_idx not in matched_right_rows:",
         new="		for right_idx in [i for b in right_index.values() for i in b]:\n			if right_idx not in matched_right_rows:",
         rules=["c.sweep"], desc="unmatched right rows come out grouped by key, not in right-table order"),
    dict(id="full-join-sweep-skips-last", module="table",
         old="		for right_idx in range(right_nrows):\n			if right_idx not in matched_right_rows:",
         new="		for right_idx in range(right_nrows - 1):\n			if right_idx not in matched_right_rows:",
         rules=["c.sweep"]),
    dict(id="full-join-sweep-left-values", module="table",
         old="				for c_idx in range(n_left_cols):\n					append_cols[c_idx](None)",
         new="				for c_idx, col in enumerate(left_cols):\n					append_cols[c_idx](col[-1])",
         rules=["c.sweep"]),
    dict(id="full-join-left-cols-given-operand-dtype", module="table",
         old="		for col_idx, orig_col in enumerate(left_cols):\n			result_cols.append(Vector(result_data[col_idx], name=orig_col._name))\n		\n		# Right columns\n		base = n_left_cols",
         new="		for col_idx, orig_col in enumerate(left_cols):\n			result_cols.append(Vector(result_data[col_idx], dtype=orig_col._dtype, name=orig_col._name))\n		\n		# Right columns\n		base = n_left_cols",
         rules=["e.wrap"]),
    dict(id="left-join-matched-block-deviates", module="table",
         old="					for offset, col in enumerate(right_cols):\n						result_append_cols[base + offset](col[right_idx])",
         new="					for offset, col in enumerate(right_cols):\n						if col[right_idx] is not None:\n							result_append_cols[base + offset](col[right_idx])",
         rules=["d.containment", "c.buffers"]),
    dict(id="twin-rename-matched-set", module="table", twin=True,
         edits=[("table", "matched_right_rows", "hit_rows", 3), ("table", "matched_right_add", "hit", 2)]),
]

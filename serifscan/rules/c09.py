"""C09 - inner join returns exactly the key-equal row pairs, left-major.

The relational equation is a run-time value property.  What is decided here is that
inner_join has the structure of a correct hash join: every rule below is a necessary
condition (its negation yields a wrong result on some input).  The same facts are
extracted from `join` and `full_join` for the sibling comparison (and reused by C10).
"""
from __future__ import annotations

import ast
from typing import List, Optional

from ..astutil import Defs, loads, none_test
from ..core import AnalysisError, attr_chain, short, walk_no_nested, walk_stmts
from ..effects import effects_of
from ..joinsx import VARIANTS, JoinModel, JoinOrderViolation
from . import joinrules as jr


def run(ctx) -> None:
    ctx.rule("a.key-symmetry", "left/right keys are the first/second projection of one pairs list built from "
                               "(other, left_on, right_on) in that order; index key ranges over right keys with the index "
                               "loop variable, probe key over left keys with the probe loop variable; names resolve by "
                               "delegation to Table.__getitem__", 3)
    ctx.rule("b.loops", "index loop covers range(len(other)), probe loop range(len(self)), no start/step; buckets only "
                        "receive append(row) in ascending order and are iterated in stored order", 3)
    ctx.rule("c.buffers", "typed buffer discipline: LEFT buffers receive left-row values, RIGHT buffers right-row values, "
                          "one append per column per emitted row; buffers sized n_left+n_right", 3)
    ctx.rule("d.unmatched", "a probe key without bucket emits nothing and nothing else is skipped", 1)
    ctx.rule("d.no-early-result", "every return of a join follows the index and probe loops (no fast path bypasses emission)", 3)
    ctx.rule("e.wrap", "result column i wraps buffer i under source column i's stored name, left then right, dtype inferred", 3)
    ctx.rule("f.determinism", "no iteration over sets / no hash() or id() flowing into the output in the join code", 3)
    ctx.rule("g.purity", "join functions and their helpers write no content field of self/other", 3)
    ctx.rule("h.siblings", "matched-emission block and wrapping are fact-equal across the three join variants", 2)
    ctx.rule("a.name-resolution", "key columns given by name resolve through Table.__getitem__(str): exact stored name "
                                  "first over all columns, first occurrence, missing name raises", 2)
    ctx.rule("a.key-validation", "_validate_join_keys rejects on spec form, lengths and key KIND only: no rejection depends on a key "
                                 "column's nullability or whole-dtype equality, and int/str/bool/date/object kinds are admitted", 1)
    from . import nameres
    ctx.section("name-resolution", nameres.check, ctx, "a.name-resolution")
    ctx.section("key-validation", jr.key_validation, ctx)
    facts = {}
    for v in VARIANTS:
        def one(v=v):
            try:
                jf = JoinModel(ctx.prog, v)
            except JoinOrderViolation as ex:
                ctx.ob("b.loops", ctx.prog.func(f"table.Table.{v}"), "emission-order", False, "", ex.node, message=str(ex))
                return
            facts[v] = jf
            jr.no_early_result(ctx, jf, "d.no-early-result")
            jr.key_symmetry(ctx, jf)
            jr.loops(ctx, jf)
            jr.buffers(ctx, jf, want_contexts=("matched",) if v == "inner_join" else None)
            if v == "inner_join":
                jr.inner_unmatched(ctx, jf)
            jr.wrap(ctx, jf)
        ctx.section(f"determinism:{v}", jr.determinism, ctx, v)
        ctx.section(f"join-structure:{v}", one)
        ctx.section(f"purity:{v}", jr.purity, ctx, v)
    ctx.section("siblings", jr.siblings, ctx, facts)
    ctx.not_decided += [
        "that the emitted pairs are exactly the key-equal pairs depends on dict/tuple equality and hashing of the key "
        "values at run time",
        "dtype agreement checks of _validate_join_keys on concrete values",
    ]


MUTANTS = [
    dict(id="all-none-key-column-refused", module="table",
         old="				if left_schema.kind is not right_schema.kind and object not in (left_schema.kind, right_schema.kind):",
         new="				if left_schema.kind is not right_schema.kind:", rules=["a.key-validation"], desc="the defect repaired by fix 6412498"),
    dict(id="key-dtypes-compared-with-nullability", module="table", old="				if left_schema.kind is not right_schema.kind and object not in (left_schema.kind, right_schema.kind):",
         new="				if left_schema != right_schema:", rules=["a.key-validation"], desc="a None on one side of the key makes the join raise"),
    dict(id="bool-keys-rejected", module="table", old="			allowed_types = (int, str, bool, date, datetime, object)",
         new="			allowed_types = (int, str, date, datetime, object)", rules=["a.key-validation"]),
    dict(id="inner-empty-guard-on-right-rows", module="table", old="		# (an empty result is a table with zero rows that still has every column, under its name)\n",
         new="		# (an empty result is a table with zero rows that still has every column, under its name)\n		if len(other) == 0 or len(self) == 1:\n			return Table(())\n", rules=["d.no-early-result"]),
    dict(id="right-value-into-left-buffer", module="table", count=3, nth=0,
         old="					append_cols[c_idx](col[left_idx])\n", new="					append_cols[c_idx](col[right_idx])\n",
         rules=["c.buffers"]),
    dict(id="base-off-by-one", module="table", count=1,
         old="				# Right columns\n				base = n_left_cols\n				for offset, col in enumerate(right_cols):\n					append_cols[base + offset](col[right_idx])\n		\n		# (an empty result is",
         new="				# Right columns\n				base = n_left_cols - 1\n				for offset, col in enumerate(right_cols):\n					append_cols[base + offset](col[right_idx])\n		\n		# (an empty result is",
         rules=["c.buffers"]),
    dict(id="probe-skips-first-row", module="table", count=3, nth=0,
         old="		for left_idx in range(left_nrows):", new="		for left_idx in range(1, left_nrows):", rules=["b.loops"]),
    dict(id="right-keys-from-first-projection", module="table", count=3, nth=0,
         old="		right_keys = [rk for _, rk in pairs]", new="		right_keys = [rk for rk, _ in pairs]", rules=["a.key-symmetry"]),
    dict(id="probe-key-over-right-keys", module="table", count=1,
         old="			key = tuple(col[left_idx] for col in left_keys)\n			\n			# Validate hashability for object dtype columns\n			if validate_hashable:\n				Table._validate_key_tuple_hashable(key, left_keys, left_idx)\n			\n			# Enforce left-side cardinality (if needed)",
         new="			key = tuple(col[left_idx] for col in right_keys)\n			\n			# Validate hashability for object dtype columns\n			if validate_hashable:\n				Table._validate_key_tuple_hashable(key, left_keys, left_idx)\n			\n			# Enforce left-side cardinality (if needed)",
         rules=["a.key-symmetry"]),
    dict(id="bucket-prepend", module="table", count=1,
         old="				bucket.append(row_idx)\n				if check_right_unique:\n					duplicates[key] = bucket\n		\n		# Cardinality check on right (one-to-one, many-to-one)",
         new="				bucket.insert(0, row_idx)\n				if check_right_unique:\n					duplicates[key] = bucket\n		\n		# Cardinality check on right (one-to-one, many-to-one)",
         rules=["b.loops"]),
    dict(id="emit-reversed-bucket", module="table", count=1,
         old="			# Emit each match\n			for right_idx in matches:", new="			# Emit each match\n			for right_idx in reversed(matches):",
         rules=["b.loops", "c.buffers"]),
    dict(id="right-names-from-left", module="table", count=1,
         old="		base = n_left_cols\n		for offset, orig_col in enumerate(right_cols):\n			result_cols.append(Vector(result_data[base + offset], name=orig_col._name))\n		\n		return Table(result_cols)\n\n	def join(",
         new="		base = n_left_cols\n		for offset, orig_col in enumerate(right_cols):\n			result_cols.append(Vector(result_data[base + offset], name=left_cols[offset]._name))\n		\n		return Table(result_cols)\n\n	def join(",
         rules=["e.wrap"]),
    dict(id="wrap-with-operand-dtype", module="table", count=1,
         old="		for col_idx, orig_col in enumerate(left_cols):\n			result_cols.append(Vector(result_data[col_idx], name=orig_col._name))\n		\n		# Right columns (preserve name)",
         new="		for col_idx, orig_col in enumerate(left_cols):\n			result_cols.append(Vector(result_data[col_idx], dtype=orig_col._dtype, name=orig_col._name))\n		\n		# Right columns (preserve name)",
         rules=["e.wrap"]),
    dict(id="iterate-a-set", module="table", count=1,
         old="		# (an empty result is a table with zero rows that still has every column, under its name)\n",
         new="		for k in set(right_index):\n			right_index[k] = list(right_index[k])\n		# (an empty result is a table with zero rows that still has every column, under its name)\n",
         rules=["f.determinism"]),
    dict(id="memo-on-right-table", module="table", count=1,
         old="		# (an empty result is a table with zero rows that still has every column, under its name)\n",
         new="		other._length = right_nrows\n		# (an empty result is a table with zero rows that still has every column, under its name)\n",
         rules=["g.purity"]),
    dict(id="rename-operand-column", module="table", count=1,
         old="		for col_idx, orig_col in enumerate(left_cols):\n			result_cols.append(Vector(result_data[col_idx], name=orig_col._name))\n		\n		# Right columns (preserve name)",
         new="		for col_idx, orig_col in enumerate(left_cols):\n			orig_col._name = orig_col._name or 'left'\n			result_cols.append(Vector(result_data[col_idx], name=orig_col._name))\n		\n		# Right columns (preserve name)",
         rules=["g.purity"]),
    dict(id="continue-on-other-condition", module="table", count=1,
         old="			if not matches:\n				continue  # INNER JOIN → skip non-matches",
         new="			if not matches or key[0] is None:\n				continue  # INNER JOIN → skip non-matches",
         rules=["d.unmatched"]),
    dict(id="join-deviates-in-emission", module="table", count=1,
         old="					# Append left columns\n					for c_idx, col in enumerate(left_cols):\n						result_append_cols[c_idx](col[left_idx])",
         new="					# Append left columns\n					for c_idx, col in enumerate(left_cols[:-1]):\n						result_append_cols[c_idx](col[left_idx])",
         rules=["c.buffers", "h.siblings"]),
    dict(id="twin-rename-locals", module="table", twin=True,
         edits=[("table", "right_index_get", "ridx_get", 8), ("table", "append_cols", "emitters", 15)]),
    dict(id="twin-result-data-attr-append", module="table", twin=True, count=3, nth=0,
         old="					append_cols[c_idx](col[left_idx])\n", new="					result_data[c_idx].append(col[left_idx])\n"),
]

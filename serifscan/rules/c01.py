"""C01 - value semantics: writes stay local, read-only operations are pure.

The isolation property over histories reduces to four structural invariants that every
statement of the package must preserve (DESIGN.md section 2/C01):
  a  storage is an immutable tuple, replaced wholesale, never written in place
  b  a Table owns its column objects (every Vector stored as a column is FRESH)
  c  operations that return a new object have no content-write effect on any operand;
     mutators write only their receiver
  d  refusal (AliasError) precedes every mutation
"""
from __future__ import annotations

import ast
from typing import Dict, List, Optional, Set, Tuple

from ..astutil import Defs
from ..cfg import PARAM, cfg_of, reaching_defs
from ..core import AnalysisError, FuncInfo, attr_chain, short, walk_no_nested, walk_stmts
from ..effects import CACHE_FIELDS, MUTATING_BUILTIN, effects_of

# functions that are ALLOWED to write content fields of their receiver (`self`) - and of nothing else
MUTATORS = {
    "vector.Vector.__setitem__", "vector.Vector._promote", "vector.Vector.name@name.setter", "vector.Vector.alias",
    "vector.Vector.rename", "vector.Vector._mark_tame", "vector.Vector._invalidate_fp",
    "table.Table.__setitem__", "table.Table.__setattr__", "table.Table._replace_column",
    "table.Table.rename_column", "table.Table.rename_columns", "table.Row.set_index",
    "alias_tracker._AliasTracker.register", "alias_tracker._AliasTracker.unregister",
    "alias_tracker._AliasTracker.check_writable", "alias_tracker._AliasTracker._cleanup_dead_refs",
}
STORAGE_STORERS = {"vector.Vector.__init__", "vector.Vector.__setitem__", "vector.Vector._promote",
                   "table.Table._replace_column"}


def run(ctx) -> None:
    ctx.rule("a.tuple-storage", "every store to a `_underlying` field assigns a value of tuple provenance "
                                "(tuple(...) call, tuple display/concatenation, or a name bound only to such)", 3)
    ctx.rule("a.no-inplace", "no subscript store / delete / mutating method / augmented assignment has an expression "
                             "rooted at `<x>._underlying` (or a local alias of it) as receiver (expected 0; fixture-armed)", 1)
    ctx.rule("b.who-stores", "only Vector.__init__, Vector.__setitem__, Vector._promote and Table._replace_column store "
                             "`_underlying` (Table.__setattr__ only forwards its own internal attributes)", 1)
    ctx.rule("b.fresh-columns", "every Vector object that becomes a column of a Table is FRESH in the storing function "
                                "(a .copy() / constructor result on every reaching definition)", 2)
    ctx.rule("c.pure", "functions outside the mutator set have an empty content-write summary on every parameter "
                       "(interprocedural, to fixpoint); cache fields _fp/_fp_powers/_column_map/_wild are exempt", 100)
    ctx.rule("c.mutator-scope", "a mutator / constructor writes only its receiver, never another operand", 8)
    ctx.rule("d.refusal-first", "in Vector.__setitem__ the check_writable call on the current storage dominates every "
                                "write event on self; _promote is only reached from there or on a FRESH receiver", 2)
    ctx.rule("d.refusal-atomic", "Table.__setitem__ writes several columns one after another, and each column write can be refused "
                                 "with AliasError: before the first store every target column is asked check_writable (a loop over the same "
                                 "target columns), so that a refused table assignment changes nothing", 1)
    ctx.rule("d.refusal-exact", "the refusal itself is exact (shared with C15.d): check_writable raises exactly when more than one LIVE "
                                "vector shares the storage; register / unregister keep exactly the live sharers", 3)
    ctx.rule("e.row-snapshot", "a Row obtained by indexing or iteration reads a SNAPSHOT of the column storage tuples taken when it was "
                               "made (shared with C02.d): later writes to the table do not show through a held row", 3)
    ctx.section("a", _rule_a, ctx)
    ctx.section("b", _rule_b, ctx)
    ctx.section("c", _rule_c, ctx)
    ctx.section("d", _rule_d, ctx)
    ctx.section("d-table", _rule_d_table, ctx)
    from . import c02, c15

    class _As:
        """the shared rule reports under this property's rule name"""
        def __init__(self, rule):
            self._rule = rule
            self.prog = ctx.prog

        def ob(self, rule, func, role, ok, what, node=None, message="", witness=""):
            return ctx.ob(self._rule, func, role, ok, what, node, message, witness)

        def info(self, msg):
            ctx.info(msg)
    ctx.section("d-exact", c15._tracker, _As("d.refusal-exact"))
    ctx.section("e-rows", c02._row_view, _As("e.row-snapshot"))
    ctx.not_decided += [
        "mutable ELEMENTS (a list stored inside an object vector is shared by shallow copies)",
        "that copy()/slicing produce equal values (C07)",
    ]


# ------------------------------------------------------------------------------------------- a
def _is_tuple_prov(prog, f: FuncInfo, e: ast.AST, at_node=None, depth: int = 0) -> bool:
    """Tuple provenance of `e` evaluated at CFG node `at_node` (reaching definitions, None excluded when
    the use is guarded by `<name> is not None`)."""
    if depth > 8:
        return False
    if isinstance(e, ast.Tuple):
        return True
    if isinstance(e, ast.Call) and isinstance(e.func, ast.Name) and e.func.id == "tuple":
        return True
    if isinstance(e, ast.BinOp) and isinstance(e.op, ast.Add):
        return _is_tuple_prov(prog, f, e.left, at_node, depth + 1) and _is_tuple_prov(prog, f, e.right, at_node, depth + 1)
    if isinstance(e, ast.IfExp):
        return _is_tuple_prov(prog, f, e.body, at_node, depth + 1) and _is_tuple_prov(prog, f, e.orelse, at_node, depth + 1)
    if isinstance(e, ast.Name):
        cfg = cfg_of(f)
        if at_node is None:
            return False
        from ..cfg import reaching_def_nodes
        defs = reaching_def_nodes(cfg, e.id, at_node)
        if not defs:
            return False
        guarded = _guarded_not_none(prog, f, at_node, e.id)
        for d, n in defs:
            if d is PARAM:
                return False
            if isinstance(d, ast.Constant) and d.value is None and guarded:
                continue
            if not isinstance(d, ast.expr):
                return False
            if not _is_tuple_prov(prog, f, d, n, depth + 1):
                return False
        return True
    if isinstance(e, ast.Attribute) and e.attr == "_precomputed_data":
        # the field is only ever assigned a tuple (checked as its own instance of the rule)
        return True
    return False


def _guarded_not_none(prog, f: FuncInfo, node, name: str) -> bool:
    from ..astutil import none_test
    cfg = cfg_of(f)
    for t in cfg.nodes:
        if t.kind == "test" and cfg.dominates(t, node) and t is not node:
            nt = none_test(t.ast)
            if nt == (name, False):
                # node must be on the True side: every path from the test's False edge avoids node?
                false_succ = [s for s, lab in t.succ if lab == "F"]
                if all(not cfg.can_reach(s, node) for s in false_succ):
                    return True
    return False


def _field_stores(prog, field: str) -> List[Tuple[FuncInfo, ast.AST, ast.AST]]:
    """(function, store node, value expr) for every store to attribute `field` in the package."""
    out = []
    for f in prog.functions.values():
        if isinstance(f.node, ast.Lambda):
            continue
        for st in walk_stmts(f.body):
            if isinstance(st, (ast.Assign, ast.AnnAssign, ast.AugAssign)):
                tg = st.targets if isinstance(st, ast.Assign) else [st.target]
                for t in tg:
                    if isinstance(t, ast.Attribute) and t.attr == field:
                        val = st.value if not isinstance(st, ast.AugAssign) else ast.BinOp(left=t, op=st.op, right=st.value)
                        out.append((f, st, val))
            for n in walk_no_nested(st) if not isinstance(st, (ast.If, ast.For, ast.While, ast.Try, ast.With, ast.FunctionDef)) else []:
                if isinstance(n, ast.Call):
                    ch = attr_chain(n.func)
                    if ch and ".".join(ch) in ("object.__setattr__", "setattr") and len(n.args) == 3:
                        a = n.args[1]
                        if isinstance(a, ast.Constant) and a.value == field:
                            out.append((f, n, n.args[2]))
    return out


def _tuple_prov_term(it, t, conds, depth: int = 0) -> bool:
    """Is term t of tuple provenance under path condition `conds`?"""
    from ..symx import NONE as SNONE
    from ..symx import flatten_conds
    if depth > 10:
        return False
    k = t[0]
    if k == "tuple":
        return True
    if k == "call" and t[1] == ("name", "tuple"):
        return True
    if k == "bin" and t[1] == "Add":
        return _tuple_prov_term(it, t[2], conds, depth + 1) and _tuple_prov_term(it, t[3], conds, depth + 1)
    if k == "ifexp":
        fc = flatten_conds(conds)
        if (t[1], True) in fc:
            return _tuple_prov_term(it, t[2], conds, depth + 1)
        if (t[1], False) in fc:
            return _tuple_prov_term(it, t[3], conds, depth + 1)
        return _tuple_prov_term(it, t[2], tuple(conds) + ((t[1], True),), depth + 1) and \
            _tuple_prov_term(it, t[3], tuple(conds) + ((t[1], False),), depth + 1)
    if k == "attr" and t[2] == "_precomputed_data":
        return True                  # the field is only ever assigned a tuple (its own instance of the rule)
    if k == "call" and t[1][0] == "attr" and t[1][2] in ("pop", "get") and t[1][1][0] == "attr" and t[1][1][2] == "__dict__" \
            and t[2] and t[2][0] == ("const", "str", "_precomputed_data"):
        # the same field taken out of the instance dict (`self.__dict__.pop('_precomputed_data', None)`): a tuple, or the default -
        # which must be None and excluded by an `is not None` guard on the path
        if len(t[2]) == 1:
            return True
        # (the default - None, or a private sentinel object - is excluded by an `is not <default>` guard on the path)
        return len(t[2]) == 2 and (t[2][1] == SNONE or t[2][1][0] == "name") and (("cmp", "Is", t, t[2][1]), False) in flatten_conds(conds)
    if k == "sub" and t[2][0] == "slice":
        return _tuple_prov_term(it, t[1], conds, depth + 1)
    if t == SNONE:
        # a None alternative excluded by an `is not None` guard on the same value is handled by the caller's conditions
        return False
    return False


def _rule_a(ctx) -> None:
    from ..sites2 import interp_of
    from ..symx import NONE as SNONE
    from ..symx import flatten_conds, show
    prog = ctx.prog
    from ..core import dead_private_helper
    from ..symx import default_inline
    inlined = default_inline(prog)
    # a later helper that stores what it is HANDED (`def _swap_storage(vec, old_id, new_tuple): ... vec._underlying = new_tuple`) is
    # judged where it is evaluated in line - in every function that calls it, with the argument of that call
    forwarders: Set[str] = set()
    work = [f for f in prog.functions.values() if not (isinstance(f.node, ast.Lambda) or f.parent)]
    done: Set[str] = set()

    def stores_directly(f) -> bool:
        if any(isinstance(n, ast.Attribute) and n.attr in ("_underlying", "_precomputed_data") and isinstance(n.ctx, ast.Store)
               for n in ast.walk(f.node)):
            return True
        return any(isinstance(n, ast.Call) and short(n.func) in ("object.__setattr__", "setattr") for n in ast.walk(f.node))

    def callers_of(name: str):
        out = []
        for g in prog.functions.values():
            if isinstance(g.node, ast.Lambda) or g.parent:
                continue
            if any(isinstance(n, ast.Call) and ((isinstance(n.func, ast.Name) and n.func.id == name)
                                                or (isinstance(n.func, ast.Attribute) and n.func.attr == name)) for n in ast.walk(g.node)):
                out.append(g)
        return out
    queue = [f for f in work if stores_directly(f)]
    while queue:
        f = queue.pop(0)
        if f.qualname in done:
            continue
        done.add(f.qualname)
        it = interp_of(prog, f)
        for e in it.events:
            fld = None
            val = None
            if e.kind == "store" and e.term[0] == "attr" and e.term[2] in ("_underlying", "_precomputed_data"):
                fld, val = e.term[2], e.value
            elif e.kind == "call" and show(e.term[1], it) in ("object.__setattr__", "setattr") and len(e.term[2]) == 3 \
                    and e.term[2][1][0] == "const" and e.term[2][1][2] in ("_underlying", "_precomputed_data"):
                fld, val = e.term[2][1][2], e.term[2][2]
            if fld is None:
                continue
            owner = prog.functions.get(e.func) or f
            # a value that may be None is fine where the store is guarded by `<value> is not None`
            fc = flatten_conds(e.conds)
            alts = []

            def collect(t, conds):
                if t[0] == "ifexp":
                    collect(t[2], conds + ((t[1], True),))
                    collect(t[3], conds + ((t[1], False),))
                else:
                    alts.append((t, conds))
            collect(val, ())
            ok = True
            for t, cnds in alts:
                if t == SNONE and ((("cmp", "Is", val, SNONE), False) in fc):
                    continue
                if any((c, not p) in fc for c, p in flatten_conds(cnds)):
                    continue            # alternative excluded by the path condition
                if not _tuple_prov_term(it, t, e.conds):
                    if t[0] == "param" and owner is f and t[1] in f.params and inlined(f) and fld == "_underlying":
                        # (handed in: decided at the calls - or nowhere, for a helper nothing mentions)
                        if dead_private_helper(prog, f):
                            continue
                        cs = callers_of(f.name)
                        if cs and all(inlined(f) for _ in cs):
                            forwarders.add(f.qualname)
                            queue.extend(c for c in cs if c.qualname not in done)
                            continue
                    ok = False
            ctx.ob("a.tuple-storage", owner, f"store:{fld}:{_ordinal(ctx, owner, fld)}", ok,
                   f"{fld} <- {show(val, it)[:60]}", e.node,
                   message=f"`{fld}` is assigned `{show(val, it)[:80]}`, which is not of tuple provenance: storage could be "
                           f"a mutable sequence shared between vectors")
    # computed field names would defeat the rule: report as analysis obstacle
    for f in prog.functions.values():
        if isinstance(f.node, ast.Lambda):
            continue
        for n in walk_no_nested(f.node):
            if isinstance(n, ast.Call):
                ch = attr_chain(n.func)
                nm = ".".join(ch) if ch else ""
                if nm in ("object.__setattr__", "setattr") and len(n.args) >= 2 and not isinstance(n.args[1], ast.Constant):
                    if f.qualname == "table.Table.__setattr__" and _is_internal_passthrough(prog, f, n):
                        continue
                    raise AnalysisError(f"{f.qualname}: `{short(n)}` writes a field with a computed name - the field-based "
                                        f"rules cannot see what it touches")
            if isinstance(n, ast.Attribute) and n.attr == "__dict__" and isinstance(prog.parent(n), (ast.Subscript,)) \
                    and isinstance(prog.parent(n).ctx, (ast.Store, ast.Del)):
                raise AnalysisError(f"{f.qualname}: write through __dict__: `{short(prog.parent(n))}`")
    # in-place writes
    n_sites = 0
    for f in prog.functions.values():
        if isinstance(f.node, ast.Lambda):
            continue
        aliases = {n for n, lst in Defs(f).assigns.items()
                   if any(v is not None and isinstance(v, ast.Attribute) and v.attr == "_underlying" for v, _, _ in lst)}

        def is_storage(e: ast.AST) -> bool:
            return (isinstance(e, ast.Attribute) and e.attr == "_underlying") or (isinstance(e, ast.Name) and e.id in aliases)
        for st in walk_stmts(f.body):
            tg = []
            if isinstance(st, ast.Assign):
                tg = st.targets
            elif isinstance(st, (ast.AugAssign, ast.AnnAssign)):
                tg = [st.target]
            elif isinstance(st, ast.Delete):
                tg = st.targets
            for t in tg:
                if isinstance(t, ast.Subscript) and is_storage(t.value):
                    n_sites += 1
                    ctx.ob("a.no-inplace", f, f"inplace:{short(t, 40)}", False, "", st,
                           message=f"storage is written in place: `{short(st, 80)}`")
            if isinstance(st, ast.AugAssign) and is_storage(st.target) and isinstance(st.target, ast.Name):
                ctx.ob("a.no-inplace", f, f"inplace:{short(st.target, 40)}", False, "", st,
                       message=f"augmented assignment on a storage alias: `{short(st, 80)}`")
        for n in walk_no_nested(f.node):
            if isinstance(n, ast.Call) and isinstance(n.func, ast.Attribute) and n.func.attr in MUTATING_BUILTIN \
                    and is_storage(n.func.value):
                ctx.ob("a.no-inplace", f, f"inplace:{short(n.func, 40)}", False, "", n,
                       message=f"a mutating method is called on storage: `{short(n, 80)}`")
    # positive fixture keeps the rule armed
    fx = ast.parse("def f(self, i, v):\n    u = self._underlying\n    u[i] = v\n    self._underlying.append(v)\n")
    hits = 0
    for st in ast.walk(fx):
        if isinstance(st, ast.Assign) and isinstance(st.targets[0], ast.Subscript):
            hits += 1
        if isinstance(st, ast.Call) and isinstance(st.func, ast.Attribute) and st.func.attr in MUTATING_BUILTIN:
            hits += 1
    ctx.ob("a.no-inplace", "fixture", "armed", hits == 2, "positive fixture (2 in-place writes) is recognised; "
           f"package scanned: {len(prog.functions)} functions, 0 in-place storage writes expected")


def _is_internal_passthrough(prog, f: FuncInfo, call: ast.Call) -> bool:
    """Table.__setattr__: object.__setattr__(self, attr, value) only where `attr in (<literal internal names>)` holds (the
    literal tuple may be a module-level constant) - on the symx event log."""
    from ..sites2 import interp_of
    from ..symx import flatten_conds
    it = interp_of(prog, f)
    evs = [e for e in it.events if e.kind == "call" and e.node is call]
    if not evs:
        return False
    for e in evs:
        if len(e.term[2]) < 2:
            return False
        name = e.term[2][1]
        ok = any(pol and t[0] == "cmp" and t[1] == "In" and t[2] == name and t[3][0] in ("tuple", "obj")
                 and (t[3][0] != "tuple" or all(x[0] == "const" and isinstance(x[2], str) for x in t[3][1]))
                 and (t[3][0] != "obj" or all(x[0] == "const" and isinstance(x[2], str) for x in it.objs[t[3][1]].init))
                 for t, pol in flatten_conds(e.conds))
        if not ok:
            return False
    return True


_ORD: Dict[Tuple[int, str, str], int] = {}


def _ordinal(ctx, f: FuncInfo, fld: str) -> int:
    k = (id(ctx), f.qualname, fld)
    _ORD[k] = _ORD.get(k, 0) + 1
    return _ORD[k]


# ------------------------------------------------------------------------------------------- b
def _rule_b(ctx) -> None:
    prog = ctx.prog
    storers = {f.qualname for f, _, _ in _field_stores(prog, "_underlying")}
    extra = reduce_to_callers(prog, storers, set(STORAGE_STORERS))
    ctx.ob("b.who-stores", "package", "storers", not extra, f"functions storing _underlying: {sorted(storers)}",
           message=f"unexpected function(s) store `_underlying`: {sorted(extra)} - every storage swap must go through the "
                   f"audited sites (alias bracket, fingerprint invalidation, fresh columns)")
    # Table.__init__: the tuple handed to Vector.__init__ holds only fresh columns (symx: helpers in line, conditional exprs)
    from ..sites2 import comp_parts, interp_of, leaves, strip_seq
    from ..symx import show
    f = prog.func("table.Table.__init__")
    it = interp_of(prog, f)
    sup = [e for e in it.events if e.kind == "call" and e.term[1][0] == "attr" and e.term[1][2] == "__init__"
           and e.term[1][1][0] == "call" and e.term[1][1][1] == ("name", "super")]
    if len(sup) != 1 or not sup[0].term[2]:
        raise AnalysisError("Table.__init__: the super().__init__(columns, ...) call was not found")
    data = sup[0].term[2][0]
    bad = []
    for d in leaves(data):
        ds = strip_seq(it, d)
        if ds[0] == "tuple" and not ds[1]:
            continue
        cp = comp_parts(it, d)
        if cp is not None and len(cp[0]) == 1 and not cp[1]:
            (L,), _, v, ev = cp
            el = ("elem", it.loops[L].iter, L)
            if v == ("call", ("attr", el, "copy"), (), ()):
                continue
        bad.append(d)
    ctx.ob("b.fresh-columns", f, "columns-at-construction", not bad,
           f"column tuple reaching Vector.__init__: {show(data, it)[:80]}", sup[0].node,
           message="a Table can be constructed over column objects it does not own: "
                   + "; ".join(f"`{show(d, it)[:70]}` reaches the storage" for d in bad)
                   + " (every input column must be snapshotted with .copy())")
    # Table._replace_column: the object put into the column list is fresh
    f = prog.func("table.Table._replace_column")
    it = interp_of(prog, f)
    S = ("param", f.params[0])
    und = ("attr", S, "_underlying")
    n_stores = 0

    def fresh(t) -> bool:
        return t[0] == "call" and ((t[1][0] == "attr" and t[1][2] == "copy" and not t[2]) or t[1] in (("name", "Vector"), ("name", "Table")))
    for e in it.events:
        if e.kind == "store" and e.term[0] == "sub" and e.term[1][0] == "obj" and it.objs[e.term[1][1]].kind == "list" \
                and it.objs[e.term[1][1]].init == (und,):
            n_stores += 1
            badv = [x for x in leaves(e.value) if not fresh(x)]
            ctx.ob("b.fresh-columns", f, "replacement-column", not badv,
                   f"replacement column: {show(e.value, it)[:60]}", e.node,
                   message="the table stores the caller's vector object itself as a column ("
                           + "; ".join(show(x, it)[:60] for x in badv)
                           + "): later writes through either handle are seen by the other")
    if n_stores == 0:
        # tuple-splicing form: self._underlying[:i] + (new,) + self._underlying[i+1:]
        for e in it.events:
            if e.kind == "store" and e.term == und:
                singles = [x for t in leaves(e.value) for x in _spliced_singletons(t)]
                if singles:
                    n_stores += 1
                    badv = [x for x in singles if not fresh(x)]
                    ctx.ob("b.fresh-columns", f, "replacement-column", not badv, "replacement column spliced into the tuple", e.node,
                           message="the table stores the caller's vector object itself as a column ("
                                   + "; ".join(show(x, it)[:60] for x in badv) + ")")
    if n_stores == 0:
        raise AnalysisError("Table._replace_column: no store into the column list found")


def _spliced_singletons(t) -> list:
    """(x,) parts of a tuple concatenation a + (x,) + b"""
    if t[0] == "bin" and t[1] == "Add":
        return _spliced_singletons(t[2]) + _spliced_singletons(t[3])
    if t[0] == "tuple" and len(t[1]) == 1:
        return [t[1][0]]
    return []


def _fresh_vector_expr(e) -> bool:
    if isinstance(e, str):
        return False
    if isinstance(e, ast.Call):
        if isinstance(e.func, ast.Attribute) and e.func.attr == "copy" and not e.args:
            return True
        if isinstance(e.func, ast.Name) and e.func.id in ("Vector", "Table"):
            return True
    return False


def _fresh_column_tuple(e) -> bool:
    if isinstance(e, str):
        return False
    if isinstance(e, ast.Tuple) and not e.elts:
        return True
    if isinstance(e, ast.Call) and isinstance(e.func, ast.Name) and e.func.id in ("tuple", "list") and len(e.args) == 1:
        g = e.args[0]
        if isinstance(g, (ast.GeneratorExp, ast.ListComp)) and len(g.generators) == 1 and not g.generators[0].ifs:
            tgt = g.generators[0].target
            if isinstance(g.elt, ast.Call) and isinstance(g.elt.func, ast.Attribute) and g.elt.func.attr == "copy" \
                    and isinstance(tgt, ast.Name) and isinstance(g.elt.func.value, ast.Name) and g.elt.func.value.id == tgt.id:
                return True
    return False


def _baseline() -> Set[str]:
    from ..symx import baseline_functions
    return baseline_functions()


def reduce_to_callers(prog, names: Set[str], allowed: Set[str]) -> Set[str]:
    """names minus the private helpers introduced after the reference tree whose every call site lies in an allowed function (or in
    another such helper): what such a helper stores / calls is what its callers do through it - the path rules (bracket, invalidation)
    see it in line."""
    base = _baseline()
    out = set(names)
    changed = True
    ok = set(allowed)
    while changed:
        changed = False
        for q in sorted(out - ok):
            f = prog.functions.get(q)
            if f is None or q in base or not f.name.startswith("_") or f.name.startswith("__"):
                continue
            callers = set()
            for g in prog.functions.values():
                if g is f or isinstance(g.node, ast.Lambda):
                    continue
                for c in prog.calls_in(g):
                    if (isinstance(c.func, ast.Name) and c.func.id == f.name) or (isinstance(c.func, ast.Attribute) and c.func.attr == f.name):
                        top = g
                        while top.parent and top.parent in prog.functions:
                            top = prog.functions[top.parent]
                        callers.add(top.qualname)
            if callers and callers <= ok:
                ok.add(q)
                changed = True
    return out - ok


def _called_in_package(prog, f: FuncInfo) -> bool:
    for g in prog.functions.values():
        if g is f or isinstance(g.node, ast.Lambda):
            continue
        for c in prog.calls_in(g):
            if isinstance(c.func, ast.Name) and c.func.id == f.name:
                return True
            if isinstance(c.func, ast.Attribute) and c.func.attr == f.name:
                return True
    return False


# ------------------------------------------------------------------------------------------- c
def _rule_c(ctx) -> None:
    prog = ctx.prog
    eff = effects_of(prog)
    table = {}
    for q, f in sorted(prog.functions.items()):
        if f.parent is not None or isinstance(f.node, ast.Lambda):
            continue
        s = eff.summary(q)
        content = sorted({(w.root, w.fld) for w in s.writes if w.kind == "content"})
        cache = sorted({w.fld for w in s.writes if w.kind == "cache"})
        table[q] = {"content_writes": [f"{r}.{x}" for r, x in content], "cache_writes": cache,
                    "returns_fresh": s.returns_fresh}
        is_ctor = f.name in ("__init__", "__new__")
        recv = f.params[0] if (f.is_method and f.params and "staticmethod" not in f.decorators) else None
        if q in MUTATORS or is_ctor:
            foreign = [w for w in s.writes if w.kind == "content" and w.root != recv]
            ctx.ob("c.mutator-scope", f, "effects", not foreign,
                   f"{'constructor' if is_ctor else 'mutator'} writes only its receiver: {table[q]['content_writes'][:4]}",
                   f.node,
                   message=f"{f.qualname} writes an operand other than its receiver: "
                           + "; ".join(f"{w.root}.{w.fld} at {w.func.split('.')[-1]}:{w.line} `{w.text}`"
                                       + (f" via {' -> '.join(x.split('.')[-1] for x in w.via[-3:])}" if w.via else "")
                                       for w in sorted(foreign, key=lambda w: w.line)[:4]))
            continue
        ws = [w for w in s.writes if w.kind == "content"]
        if ws and q not in _baseline() and f.name.startswith("_") and _called_in_package(prog, f):
            # a private helper introduced after the reference tree: what it writes is charged to its callers, through the
            # arguments they pass (a scratch list built by the caller is nobody's operand)
            ctx.info(f"C01.c: new private helper {q} writes its parameter(s) {sorted({w.root for w in ws})}; judged at its callers")
            continue
        ctx.ob("c.pure", f, "effects", not ws, "no content write on any parameter"
               + (f" (cache: {cache})" if cache else ""), f.node,
               message=f"{f.qualname} is not a mutator but writes to its operands: "
                       + "; ".join(f"{w.root}.{w.fld} at {w.func.split('.')[-1]}:{w.line} `{w.text}`"
                                   + (f" via {' -> '.join(x.split('.')[-1] for x in w.via[-3:])}" if w.via else "")
                                   for w in sorted(ws, key=lambda w: (w.func, w.line))[:4]))
    if ctx.tier == "thorough":
        ctx.extra["effect_table"] = table
    else:
        ctx.extra["effect_table_sample"] = {k: table[k] for k in list(table)[:25]}
    ctx.extra["functions_summarised"] = len(table)


# ------------------------------------------------------------------------------------------- d
def _rule_d(ctx) -> None:
    prog = ctx.prog
    f = prog.func("vector.Vector.__setitem__")
    cfg = cfg_of(f)
    d = Defs(f)
    tracker_names = {"_ALIAS_TRACKER"} | {n for n, lst in d.assigns.items()
                                          if any(isinstance(v, ast.Name) and v.id == "_ALIAS_TRACKER" for v, _, _ in lst if v is not None)}
    checks = []
    for n in cfg.stmt_nodes():
        if n.kind == "stmt" and isinstance(n.ast, ast.Expr) and isinstance(n.ast.value, ast.Call):
            c = n.ast.value
            ch = attr_chain(c.func)
            if ch and len(ch) == 2 and ch[0] in tracker_names and ch[1] == "check_writable":
                okargs = len(c.args) == 2 and short(c.args[0]) == "self" and short(c.args[1]) == "id(self._underlying)"
                checks.append((n, okargs))
    if not checks:
        ctx.ob("d.refusal-first", f, "check_writable", False, "", f.node,
               message="Vector.__setitem__ never asks the alias tracker whether the storage is shared")
    else:
        cnode, okargs = checks[0]
        problems = []
        if not okargs:
            problems.append(f"check_writable is not called with (self, id(self._underlying)): `{short(cnode.ast)}`")
        # write events on self
        for n in cfg.stmt_nodes():
            if not cfg.is_reachable(n) or n is cnode:
                continue
            ev = _self_write_event(prog, f, n, tracker_names)
            if ev and not cfg.dominates(cnode, n):
                problems.append(f"`{n.text()}` (line {n.lineno}: {ev}) can run before the alias check - a refused write "
                                f"would already have changed the vector")
        ctx.ob("d.refusal-first", f, "check_writable", not problems,
               "check_writable(self, id(self._underlying)) dominates every write event on self", cnode.ast,
               message="; ".join(problems[:3]))
    # _promote call sites
    problems = []
    n_sites = 0
    for g in prog.functions.values():
        if isinstance(g.node, ast.Lambda):
            continue
        for c in prog.calls_in(g):
            if isinstance(c.func, ast.Attribute) and c.func.attr == "_promote":
                n_sites += 1
                recv = c.func.value
                if g.qualname == "vector.Vector.__setitem__" and short(recv) == "self":
                    continue
                # must be a FRESH receiver: a local whose reaching definitions are all .copy()/constructor calls
                gcfg = cfg_of(g)
                node = gcfg.enclosing_stmt_node(prog, c)
                defs = reaching_defs(gcfg, recv.id, node) if isinstance(recv, ast.Name) else [recv]
                if not all(_fresh_vector_expr(x) for x in defs):
                    problems.append(f"{g.qualname}:{c.lineno} promotes `{short(recv)}` in place, which is not a fresh copy "
                                    f"(no alias check, caller-visible mutation)")
    ctx.ob("d.refusal-first", prog.func("vector.Vector._promote"), "promote-call-sites", not problems,
           f"{n_sites} _promote call site(s): inside __setitem__ after the alias check, or on a fresh copy",
           message="; ".join(problems))


def _rule_d_table(ctx) -> None:
    """Multi-column stores of Table.__setitem__ (a store inside a loop over the target columns) on the symx event log: an earlier
    loop over the same target columns must call <tracker>.check_writable(column, id(column._underlying)) unconditionally."""
    from ..sites2 import interp_of
    from ..symx import flatten_conds, show, subterms
    prog = ctx.prog
    f = prog.func("table.Table.__setitem__")
    it = interp_of(prog, f)
    SELF = ("param", f.params[0])
    cols = (("attr", SELF, "_underlying"), ("call", ("attr", SELF, "cols"), (), ()))
    stores = [e for e in it.events if e.kind == "store" and e.term[0] == "sub" and e.term[1][0] == "sub" and e.term[1][1] in cols]
    if not stores:
        raise AnalysisError("Table.__setitem__: cell stores not found")

    def dom(L):
        lp = it.loops[L]
        d = lp.domain if lp.domain is not None else lp.iter
        return d

    def col_loop(e):
        """the loop whose element selects the column of store / check event e (None: a single column)"""
        idx = e.term[1][2] if e.kind == "store" else e.term[2][0][2]
        for L in reversed(e.loops):
            if any(x[0] in ("elem", "idx") and x[-1] == L for x in subterms(idx)) or idx == ("idx", L):
                return L
        return None
    checks = [e for e in it.events if e.kind == "call" and e.term[1][0] == "attr" and e.term[1][2] == "check_writable" and len(e.term[2]) == 2
              and e.term[2][0][0] == "sub" and e.term[2][0][1] in cols
              and e.term[2][1] == ("call", ("name", "id"), (("attr", e.term[2][0], "_underlying"),), ())]
    first = min(e.seq for e in stores)
    problems = []
    n = 0
    for m in stores:
        L = col_loop(m)
        if L is None:
            continue                    # one column: its own __setitem__ refuses before it writes (d.refusal-first)
        n += 1
        D = dom(L)
        targets = [d_ for d_ in (D[1] if D[0] == "tuple" else (D,))]
        ok = False
        for c in checks:
            Lc = col_loop(c)
            if Lc is None or c.seq > first:
                continue
            Dc = dom(Lc)
            tc = [d_ for d_ in (Dc[1] if Dc[0] == "tuple" else (Dc,))]
            same = any(t_ in targets for t_ in tc)
            extra = [cd for cd in flatten_conds(c.conds) if cd not in flatten_conds(m.conds)]
            if same and not extra and c.term[2][0][2] in (("elem", t_, Lc) for t_ in tc):
                ok = True
        if not ok:
            problems.append(f"the columns written by `{show(m.term, it)[-50:]} = ...` (line {getattr(m.node, 'lineno', '?')}) are not all asked "
                            f"check_writable before the first of them is written: a column that shares storage refuses with AliasError "
                            f"after earlier columns have been changed")
    ctx.ob("d.refusal-atomic", f, "table-setitem", not problems and n >= 1,
           f"{n} multi-column store(s), each after a check_writable pass over the same target columns", stores[0].node,
           message="; ".join(problems[:2]) or "Table.__setitem__: no multi-column store found")


def _self_write_event(prog, f, node, tracker_names) -> Optional[str]:
    st = node.ast
    if node.kind != "stmt":
        return None
    if isinstance(st, (ast.Assign, ast.AugAssign, ast.AnnAssign)):
        tg = st.targets if isinstance(st, ast.Assign) else [st.target]
        for t in tg:
            base = t
            while isinstance(base, (ast.Attribute, ast.Subscript)):
                if isinstance(base, ast.Attribute) and isinstance(base.value, ast.Name) and base.value.id == "self":
                    return f"store to self.{base.attr}"
                base = base.value
    for n in walk_no_nested(st):
        if isinstance(n, ast.Call):
            ch = attr_chain(n.func)
            if ch and ch[0] == "self" and len(ch) == 2 and ch[1] in ("_promote", "_invalidate_fp", "_mark_tame"):
                return f"call self.{ch[1]}()"
            if ch and len(ch) == 2 and ch[0] in tracker_names and ch[1] in ("register", "unregister"):
                return f"tracker {ch[1]}"
            if ch and ".".join(ch) in ("object.__setattr__", "setattr"):
                return "setattr"
    return None


# ---------------------------------------------------------------------------------------------------------
_V = "vector"
_T = "table"
MUTANTS = [
    dict(id="table-setitem-no-writability-pass", module="table",
         old="		for col_idx in target_indices:\n			_ALIAS_TRACKER.check_writable(self._underlying[col_idx], id(self._underlying[col_idx]._underlying))\n", new="",
         rules=["d.refusal-atomic"], desc="the defect repaired by the refusal-atomic fix: AliasError after earlier columns were written"),
    dict(id="table-setitem-checks-first-column-only", module="table",
         old="		for col_idx in target_indices:\n			_ALIAS_TRACKER.check_writable(self._underlying[col_idx], id(self._underlying[col_idx]._underlying))\n",
         new="		for col_idx in target_indices[:1]:\n			_ALIAS_TRACKER.check_writable(self._underlying[col_idx], id(self._underlying[col_idx]._underlying))\n",
         rules=["d.refusal-atomic"]),
    dict(id="init-drops-copy", module=_T, old="			initial = tuple(vec.copy() for vec in initial)",
         new="			initial = tuple(vec for vec in initial)", rules=["b.fresh-columns"]),
    dict(id="replace-column-stores-donor", module=_T, old="		new_col = value.copy()\n", new="		new_col = value\n",
         rules=["b.fresh-columns", "c.mutator-scope"]),
    dict(id="rshift-dict-drops-copy", module=_T, old="					col = values.copy()  # Copy to prevent aliasing",
         new="					col = values", rules=["c.pure"], desc="the dict form of >> renames the caller's vector"),
    dict(id="storage-becomes-list", module=_V, old="			self._underlying = tuple(initial)", new="			self._underlying = list(initial)",
         rules=["a.tuple-storage"]),
    dict(id="setitem-writes-in-place", module=_V, old="		new_tuple = tuple(data_list)\n		old_id = id(underlying)",
         new="		new_tuple = tuple(data_list)\n		underlying[0:0] = ()\n		old_id = id(underlying)", rules=["a.no-inplace"]),
    dict(id="elementwise-clears-operand-name", module=_V,
         old="			result_dtype = infer_dtype(result_values)\n			return Vector(result_values,\n							dtype=result_dtype,\n							name=None,\n							as_row=self._display_as_row)\n\n		# (a mapping is ONE operand",
         new="			result_dtype = infer_dtype(result_values)\n			other._name = None\n			return Vector(result_values,\n							dtype=result_dtype,\n							name=None,\n							as_row=self._display_as_row)\n\n		# (a mapping is ONE operand",
         rules=["c.pure"]),
    dict(id="check-writable-after-updates", module=_V,
         edits=[(_V, "		_alias = _ALIAS_TRACKER\n		_alias.check_writable(self, id(self._underlying))\n", "		_alias = _ALIAS_TRACKER\n", 1),
                (_V, "		data_list = list(underlying)           # COW materialization\n",
                 "		_alias.check_writable(self, id(self._underlying))\n		data_list = list(underlying)           # COW materialization\n", 1)],
         rules=["d.refusal-first"], desc="dtype bookkeeping / promotion runs before the refusal"),
    dict(id="join-renames-operand-column", module=_T,
         old="		for col_idx, orig_col in enumerate(left_cols):\n			result_cols.append(Vector(result_data[col_idx], name=orig_col._name))\n		\n		# Right columns (preserve name)",
         new="		for col_idx, orig_col in enumerate(left_cols):\n			self._underlying[col_idx]._name = orig_col._name or 'left'\n			result_cols.append(Vector(result_data[col_idx], name=orig_col._name))\n		\n		# Right columns (preserve name)",
         rules=["c.pure"]),
    dict(id="fillna-promotes-self", module=_V, old="					result = self.copy()\n					result._promote(required_dtype.kind)",
         new="					result = self\n					result._promote(required_dtype.kind)", rules=["d.refusal-first", "c.pure"]),
    dict(id="sort-by-sorts-operand-storage-alias", module=_T,
         old="		new_cols = []\n		for col in self._underlying:\n			src = col._underlying\n			new_data = [src[i] for i in indices]",
         new="		new_cols = []\n		for col in self._underlying:\n			col._display_as_row = False\n			src = col._underlying\n			new_data = [src[i] for i in indices]",
         rules=["c.pure"]),
    dict(id="setattr-writes-donor-name", module=_T, old="		new_col = value.copy()\n		new_col._name = self._underlying[col_idx]._name  # Preserve original name",
         new="		new_col = value.copy()\n		value._name = new_col._name = self._underlying[col_idx]._name  # Preserve original name",
         rules=["c.mutator-scope"]),
    dict(id="twin-copy-loop", module=_T, twin=True, old="			initial = tuple(vec.copy() for vec in initial)",
         new="			initial = tuple([v.copy() for v in initial])"),
    dict(id="twin-rename-new-col", module=_T, twin=True, edits=[(_T, "new_col", "snapshot", 15)]),
]

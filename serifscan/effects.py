"""E4 - freshness / write-effect analysis.

For every function of the package: which objects reachable from its PARAMETERS
may it write to (attribute store, subscript store, delete, mutating method call,
object.__setattr__, or a call whose own summary writes), and does it return a
fresh object?  Flow-insensitive inside a function (a name's provenance is the
union over all its bindings), interprocedural through summaries iterated to a
fixpoint over the call graph.

Provenance of a value = (roots, elem):
  roots - parameters of the current function the value (the object itself) may
          be reachable from / owned by.  Empty = FRESH (created in this activation).
  elem  - parameters the ELEMENTS / attributes of the value may belong to (a fresh
          list of the caller's columns has roots={} but elem={self}).
A write is attributed to the roots of the written object.
"""
from __future__ import annotations

import ast
from dataclasses import dataclass, field
from typing import Dict, FrozenSet, List, Optional, Set, Tuple

from .core import AnalysisError, FuncInfo, Program, attr_chain, short, walk_no_nested, walk_stmts

CACHE_FIELDS = {"_fp", "_fp_powers", "_column_map", "_wild"}
CONTENT_FIELDS = {"_underlying", "_dtype", "_name", "_length", "_display_as_row", "_repr_rows"}

MUTATING_BUILTIN = {
    "append", "extend", "insert", "pop", "remove", "clear", "sort", "reverse", "update", "add",
    "discard", "setdefault", "popitem", "appendleft", "popleft", "__setitem__", "__delitem__",
    "difference_update", "intersection_update", "symmetric_difference_update",
}
PURE_BUILTINS = {
    "len", "isinstance", "issubclass", "id", "hash", "str", "repr", "int", "float", "bool", "complex",
    "max", "min", "sum", "any", "all", "type", "callable", "hasattr", "abs", "round", "range", "print",
    "format", "ord", "chr", "divmod", "pow", "bytes", "bytearray", "super", "b_isinstance",
}
CONTAINER_BUILDERS = {"list", "tuple", "set", "dict", "sorted", "frozenset", "reversed", "iter", "enumerate",
                      "zip", "map", "filter", "next", "deepcopy", "copy"}

E: FrozenSet[str] = frozenset()


@dataclass(frozen=True)
class Prov:
    roots: FrozenSet[str] = E
    elem: FrozenSet[str] = E
    bm: Optional[str] = None          # bound-method alias: name of the method
    parts: Optional[Tuple["Prov", ...]] = None       # the value is a tuple with these components
    eparts: Optional[Tuple["Prov", ...]] = None      # each ELEMENT is a tuple with these components (zip, enumerate, items)
    # identity of the direct elements, when it is known more precisely than `elem` (which also covers whatever the elements
    # contain): a tuple of freshly computed vectors has eroots = {} although its cells come from the operands.  A token "p[]"
    # stands for "a direct element of parameter p".  None = not known separately (same as elem).
    eroots: Optional[FrozenSet[str]] = None

    @property
    def er(self) -> FrozenSet[str]:
        return self.elem if self.eroots is None else self.eroots

    def union(self, o: "Prov") -> "Prov":
        def merge(a, b):
            if a is None or b is None or len(a) != len(b):
                return None
            return tuple(x.union(y) for x, y in zip(a, b))
        er = None if (self.eroots is None and o.eroots is None) else (self.er | o.er)
        return Prov(self.roots | o.roots, self.elem | o.elem, self.bm or o.bm,
                    merge(self.parts, o.parts), merge(self.eparts, o.eparts), er)

    def element(self) -> "Prov":
        """Provenance of one element obtained by iteration / indexing."""
        return Prov(self.er, self.elem, None, self.eparts, None)

    @property
    def all(self) -> FrozenSet[str]:
        return self.roots | self.elem


FRESH = Prov()


@dataclass(frozen=True)
class Write:
    root: str                 # parameter of the summarised function that is written
    fld: str                  # attribute name, '[]' for a subscript store, '.m()' for a mutating call
    func: str                 # qualname of the function that contains the write event
    line: int
    text: str = field(default="", compare=False)
    via: Tuple[str, ...] = field(default=(), compare=False)  # call chain from the summarised function down to `func`
    elem_only: bool = False   # the written object is a direct ELEMENT of `root` (its own field), not root itself or deeper

    @property
    def kind(self) -> str:
        if self.fld in CACHE_FIELDS:
            return "cache"
        return "content"


@dataclass
class Summary:
    func: FuncInfo
    writes: Set[Write] = field(default_factory=set)
    ret: Prov = FRESH
    returns_fresh: bool = True
    raises_after_write: bool = False


class Effects:
    def __init__(self, prog: Program):
        self.prog = prog
        self.summaries: Dict[str, Summary] = {q: Summary(f) for q, f in prog.functions.items()}
        self._callers_args: Dict[str, List[Tuple[FuncInfo, ast.Call]]] = {}
        self._method_index: Dict[str, List[FuncInfo]] = {}
        for f in prog.functions.values():
            if f.is_method:
                self._method_index.setdefault(f.name, []).append(f)
        self._param_callees: Dict[Tuple[str, str], List[ast.AST]] = {}
        self._collect_param_callees()
        for _ in range(12):
            changed = False
            for q, f in prog.functions.items():
                if f.parent is not None:
                    continue            # nested functions are analysed inside their parent
                s = self._analyse(f)
                old = self.summaries[q]
                if s.writes != old.writes or s.ret != old.ret:
                    changed = True
                self.summaries[q] = s
            if not changed:
                break
        else:
            raise AnalysisError("effect summaries did not reach a fixpoint in 12 passes")

    # ------------------------------------------------------------------
    def _collect_param_callees(self) -> None:
        """For calls through a parameter (op_func, func, fn): what do the package's own call sites pass?"""
        for f in self.prog.functions.values():
            if isinstance(f.node, ast.Lambda):
                continue
            for call in self.prog.calls_in(f):
                kind, target = self.prog.resolve_call(f, call)
                if target is None:
                    continue
                params = target.params
                off = 1 if target.is_method and not isinstance(call.func, ast.Name) else 0
                if "staticmethod" in target.decorators:
                    off = 0
                for i, a in enumerate(call.args):
                    if i + off < len(params):
                        self._param_callees.setdefault((target.qualname, params[i + off]), []).append(a)
                for k in call.keywords:
                    if k.arg:
                        self._param_callees.setdefault((target.qualname, k.arg), []).append(k.value)

    def summary(self, qualname: str) -> Summary:
        s = self.summaries.get(qualname)
        if s is None:
            raise AnalysisError(f"no effect summary for {qualname}")
        return s

    # ------------------------------------------------------------------
    def _analyse(self, f: FuncInfo) -> Summary:
        an = _FuncAnalysis(self, f, {p: Prov(frozenset({p}), frozenset({p}), None, None, None, frozenset({p + "[]"})) for p in f.params}, ())
        an.run()
        s = Summary(f, an.writes, an.ret)
        s.returns_fresh = not an.ret.roots
        return s


class _FuncAnalysis:
    def __init__(self, eff: Effects, f: FuncInfo, env: Dict[str, Prov], via: Tuple[str, ...]):
        self.eff = eff
        self.prog = eff.prog
        self.f = f
        self.env: Dict[str, Prov] = dict(env)
        self.via = via
        self.writes: Set[Write] = set()
        self.ret: Prov = FRESH
        self.local_funcs: Dict[str, ast.AST] = {}
        self.collect = False

    # -- driver -----------------------------------------------------------
    def run(self) -> None:
        body = self.f.body
        for st in walk_stmts(body):
            if isinstance(st, (ast.FunctionDef, ast.AsyncFunctionDef)):
                self.local_funcs[st.name] = st
        for _ in range(10):
            before = dict(self.env)
            self.ret_before = self.ret
            for st in walk_stmts(body):
                self._bind_stmt(st)
            if before == self.env:
                break
        self.collect = True
        for st in walk_stmts(body):
            self._bind_stmt(st)

    # -- environment ------------------------------------------------------
    def _set(self, name: str, p: Prov) -> None:
        old = self.env.get(name)
        self.env[name] = p if old is None else old.union(p)

    def _bind_target(self, tgt: ast.AST, p: Prov, from_iter: bool = False) -> None:
        if isinstance(tgt, ast.Name):
            self._set(tgt.id, p)
        elif isinstance(tgt, (ast.Tuple, ast.List)):
            if p.parts is not None and len(p.parts) == len(tgt.elts) \
                    and not any(isinstance(e, ast.Starred) for e in tgt.elts):
                for e, pp in zip(tgt.elts, p.parts):
                    self._bind_target(e, pp)
            else:
                for e in tgt.elts:
                    self._bind_target(e, Prov(p.all, p.all))
        elif isinstance(tgt, ast.Starred):
            self._bind_target(tgt.value, p)
        elif isinstance(tgt, (ast.Attribute, ast.Subscript)):
            if self.collect:
                self._store(tgt)

    def _bind_stmt(self, st: ast.stmt) -> None:
        if isinstance(st, ast.Assign):
            p = self.ev(st.value)
            if isinstance(st.value, ast.Lambda):
                for t in st.targets:
                    if isinstance(t, ast.Name):
                        self.local_funcs[t.id] = st.value
            for t in st.targets:
                self._bind_target(t, p)
        elif isinstance(st, ast.AnnAssign):
            if st.value is not None:
                self._bind_target(st.target, self.ev(st.value))
        elif isinstance(st, ast.AugAssign):
            p = self.ev(st.value)
            if isinstance(st.target, ast.Name):
                # x += y : for lists this mutates x in place
                tp = self.env.get(st.target.id, FRESH)
                listlike = isinstance(st.value, (ast.List, ast.ListComp)) or (
                    isinstance(st.value, ast.Call) and isinstance(st.value.func, ast.Name)
                    and st.value.func.id == "list")
                if self.collect and tp.roots and listlike:
                    self._write(tp.roots, "+=", st)      # list += ... extends the object in place
                self._set(st.target.id, Prov(E, p.all))
            else:
                self.ev(st.target.value)
                if self.collect:
                    self._store(st.target)
        elif isinstance(st, ast.Delete):
            for t in st.targets:
                if isinstance(t, (ast.Attribute, ast.Subscript)) and self.collect:
                    # `del self._precomputed_data` style
                    self._store(t, deleting=True)
        elif isinstance(st, (ast.For, ast.AsyncFor)):
            p = self.ev(st.iter)
            self._bind_target(st.target, p.element())
        elif isinstance(st, (ast.With, ast.AsyncWith)):
            for it in st.items:
                p = self.ev(it.context_expr)
                if it.optional_vars is not None:
                    self._bind_target(it.optional_vars, p)
        elif isinstance(st, ast.Return):
            if st.value is not None:
                self.ret = self.ret.union(self.ev(st.value))
        elif isinstance(st, ast.Expr):
            if isinstance(st.value, (ast.Yield, ast.YieldFrom)) and st.value.value is not None:
                self.ret = self.ret.union(self.ev(st.value.value))
            else:
                self.ev(st.value)
        elif isinstance(st, (ast.If, ast.While)):
            self.ev(st.test)
        elif isinstance(st, ast.Raise):
            if st.exc is not None:
                self.ev(st.exc)
        elif isinstance(st, ast.Assert):
            self.ev(st.test)
        elif isinstance(st, ast.Try):
            pass
        # nested defs: analysed when called (closure environment)

    # -- write events -----------------------------------------------------
    def _write(self, roots, fld: str, node: ast.AST, via: Tuple[str, ...] = (), origin: Optional[Write] = None):
        for r in roots:
            eo = r.endswith("[]")
            r = r[:-2] if eo else r
            if origin is not None:
                self.writes.add(Write(r, origin.fld, origin.func, origin.line, origin.text,
                                      (self.f.qualname,) + origin.via if not via else via, eo))
            else:
                self.writes.add(Write(r, fld, self.f.qualname, getattr(node, "lineno", 0), short(node, 100), self.via, eo))

    def _store(self, tgt: ast.AST, deleting: bool = False) -> None:
        base = self.ev(tgt.value)
        if isinstance(tgt, ast.Attribute):
            if base.roots:
                self._write(base.roots, tgt.attr, tgt)
        else:
            if base.roots:
                self._write(base.roots, "[]", tgt)

    # -- expressions --------------------------------------------------------
    def ev(self, e: ast.AST) -> Prov:
        if e is None:
            return FRESH
        m = getattr(self, "_ev_" + type(e).__name__, None)
        if m is not None:
            return m(e)
        # generic: evaluate children for their effects, result fresh
        for ch in ast.iter_child_nodes(e):
            if isinstance(ch, ast.expr):
                self.ev(ch)
        return FRESH

    def _ev_Name(self, e: ast.Name) -> Prov:
        return self.env.get(e.id, FRESH)

    def _ev_Constant(self, e) -> Prov:
        return FRESH

    def _ev_Attribute(self, e: ast.Attribute) -> Prov:
        p = self.ev(e.value)
        return Prov(p.roots, p.all, e.attr if p.roots else None)

    def _ev_Subscript(self, e: ast.Subscript) -> Prov:
        p = self.ev(e.value)
        self.ev(e.slice)
        if p.parts is not None and isinstance(e.slice, ast.Constant) and isinstance(e.slice.value, int) \
                and -len(p.parts) <= e.slice.value < len(p.parts):
            return p.parts[e.slice.value]
        if isinstance(e.slice, ast.Slice):
            return Prov(p.elem, p.elem, None, None, p.eparts)
        return p.element()

    def _ev_Starred(self, e) -> Prov:
        return self.ev(e.value)

    def _ev_IfExp(self, e) -> Prov:
        self.ev(e.test)
        return self.ev(e.body).union(self.ev(e.orelse))

    def _ev_BoolOp(self, e) -> Prov:
        p = FRESH
        for v in e.values:
            p = p.union(self.ev(v))
        return p

    def _ev_BinOp(self, e) -> Prov:
        l, r = self.ev(e.left), self.ev(e.right)
        return Prov(E, l.elem | r.elem)

    def _ev_NamedExpr(self, e) -> Prov:
        p = self.ev(e.value)
        self._bind_target(e.target, p)
        return p

    def _ev_Lambda(self, e) -> Prov:
        return FRESH

    def _ev_Tuple(self, e) -> Prov:
        a = E
        parts = []
        for x in e.elts:
            px = self.ev(x)
            parts.append(px)
            a |= px.all
        if any(isinstance(x, ast.Starred) for x in e.elts):
            return Prov(E, a)
        er = E
        for px in parts:
            er |= px.roots
        return Prov(E, a, None, tuple(parts), None, er)

    def _ev_List(self, e) -> Prov:
        a = E
        er = E
        for x in e.elts:
            px = self.ev(x)
            a |= px.all
            er |= px.all if isinstance(x, ast.Starred) else px.roots
        return Prov(E, a, None, None, None, er)

    _ev_Set = _ev_List

    def _ev_Dict(self, e) -> Prov:
        a = E
        for x in list(e.keys) + list(e.values):
            if x is not None:
                a |= self.ev(x).all
        return Prov(E, a)

    def _comp(self, e, elts) -> Prov:
        for g in e.generators:
            p = self.ev(g.iter)
            self._bind_target(g.target, p.element())
            for c in g.ifs:
                self.ev(c)
        a = E
        ep = None
        er = None
        for x in elts:
            px = self.ev(x)
            a |= px.all
            if len(elts) == 1:
                ep = px.parts
                er = px.roots
        return Prov(E, a, None, None, ep, er)

    def _ev_ListComp(self, e) -> Prov:
        return self._comp(e, [e.elt])

    _ev_SetComp = _ev_ListComp
    _ev_GeneratorExp = _ev_ListComp

    def _ev_DictComp(self, e) -> Prov:
        return self._comp(e, [e.key, e.value])

    def _ev_Await(self, e) -> Prov:
        return self.ev(e.value)

    # -- calls ------------------------------------------------------------
    def _ev_Call(self, call: ast.Call) -> Prov:
        args = [self.ev(a) for a in call.args]
        kws = {k.arg: self.ev(k.value) for k in call.keywords}
        allargs = args + list(kws.values())
        fn = call.func
        name = ".".join(attr_chain(fn)) if attr_chain(fn) else None

        # object.__setattr__(X, 'f', v) / setattr(X, 'f', v)
        if name in ("object.__setattr__", "setattr") and len(call.args) >= 2:
            fld = call.args[1].value if isinstance(call.args[1], ast.Constant) else "?"
            if self.collect and args[0].roots:
                self._write(args[0].roots, str(fld), call)
            return FRESH
        if name in ("object.__getattribute__", "getattr") and call.args:
            p = args[0]
            return Prov(p.roots, p.all)

        # ---- plain names ----
        if isinstance(fn, ast.Name):
            nm = fn.id
            if nm in self.local_funcs:
                return self._call_local(nm, call, args, kws)
            if nm in self.env and nm not in self.prog.classes:
                # call through a local alias / parameter
                p = self.env[nm]
                if p.bm and p.bm in MUTATING_BUILTIN and p.roots and self.collect:
                    self._write(p.roots, f".{p.bm}()", call)
                if p.bm in ("get", "pop", "setdefault", "__getitem__"):
                    return Prov(p.elem, p.elem)
                if self.f.params and nm in self.f.params:
                    return self._call_param(nm, allargs)
                return FRESH if not p.bm else Prov(E, E)
            kind, target = self.prog.resolve_call(self.f, call)
            if kind.startswith("ctor:"):
                return self._call_ctor(kind[5:], call, args, kws)
            if target is not None:
                return self._apply(target, None, call, args, kws)
            if nm in PURE_BUILTINS:
                return FRESH
            if nm in CONTAINER_BUILDERS:
                a = E
                for x in allargs:
                    a |= x.elem
                if nm == "next":
                    return Prov(a, a, None, args[0].eparts if args else None)
                if nm == "zip":
                    return Prov(E, a, None, None, tuple(x.element() for x in args))
                if nm == "enumerate" and args:
                    return Prov(E, a, None, None, (FRESH, args[0].element()))
                if nm in ("list", "tuple", "sorted", "reversed", "iter") and len(args) == 1:
                    return Prov(E, a, None, None, args[0].eparts, args[0].eroots)
                return Prov(E, a)
            return FRESH

        # ---- attribute calls ----
        if isinstance(fn, ast.Attribute):
            recv = self.ev(fn.value)
            kind, target = self.prog.resolve_call(self.f, call)
            if kind == "method" and target is not None:
                is_super = isinstance(fn.value, ast.Call)
                is_class_recv = isinstance(fn.value, ast.Name) and fn.value.id in self.prog.classes
                if is_super or (isinstance(fn.value, ast.Name) and fn.value.id == "self"):
                    return self._apply(target, self.env.get("self", FRESH), call, args, kws)
                if is_class_recv:
                    if "staticmethod" in target.decorators or "classmethod" in target.decorators:
                        return self._apply(target, FRESH, call, args, kws, static="staticmethod" in target.decorators)
                    return self._apply(target, args[0] if args else FRESH, call, args[1:], kws)
                return self._apply(target, recv, call, args, kws)
            if kind == "unresolved-self":
                return Prov(recv.roots, recv.all)
            # receiver of unknown type: builtin container or a package object
            m = fn.attr
            if isinstance(fn.value, ast.Name) and fn.value.id in ("operator", "warnings", "math", "re", "csv", "weakref"):
                return FRESH
            if m in MUTATING_BUILTIN and not self._package_defines(m):
                if self.collect and recv.roots:
                    self._write(recv.roots, f".{m}()", call)
                if m in ("pop", "setdefault", "popitem"):
                    return Prov(recv.elem, recv.elem)
                return FRESH
            cands = self.eff._method_index.get(m, [])
            if cands:
                out = FRESH
                for t in cands:
                    out = out.union(self._apply(t, recv, call, args, kws))
                return out
            if m == "items":
                return Prov(E, recv.elem, None, None, (Prov(recv.elem, recv.elem), Prov(recv.elem, recv.elem)))
            if m in ("get", "values", "keys", "__getitem__", "copy", "pop"):
                return Prov(recv.elem if m in ("get", "pop") else E, recv.elem)
            if m in ("join", "format", "lower", "upper", "strip", "lstrip", "rstrip", "split", "startswith", "endswith",
                     "isdigit", "isidentifier", "rpartition", "partition", "replace", "ljust", "rjust", "indices",
                     "isoformat", "fromisoformat", "combine", "time", "toordinal", "fromordinal", "count", "index",
                     "warn", "sub", "match", "reader", "fromkeys", "encode"):
                return FRESH
            # unknown method on an external object: returns something that may belong to it
            return Prov(recv.roots, recv.all)

        # call of a call / subscript etc.
        p = self.ev(fn)
        return FRESH

    def _package_defines(self, m: str) -> bool:
        return m in self.eff._method_index

    def _call_param(self, nm: str, allargs: List[Prov]) -> Prov:
        actuals = self.eff._param_callees.get((self.f.qualname, nm), [])
        if actuals and all(self._is_fresh_returning_callable(a) for a in actuals):
            return FRESH
        # user supplied callable: its result is the user's business; treat as possibly aliasing the arguments
        a = E
        for x in allargs:
            a |= x.all
        return Prov(E, a)

    def _is_fresh_returning_callable(self, a: ast.AST) -> bool:
        ch = attr_chain(a)
        if ch and ch[0] == "operator":
            return True
        if isinstance(a, ast.Name):
            q = f"vector.{a.id}"
            if q in self.prog.functions and a.id.startswith("_reverse_"):
                return True
            if a.id in ("op_func", "op", "fn"):
                return True          # forwarded dispatch parameter (resolved at ITS call sites)
        if isinstance(a, ast.Call) and isinstance(a.func, ast.Name) and not a.keywords:
            # an operator made by a package factory, e.g. _reflected(operator.sub): the factory returns a local function whose
            # every return is a call of the factory's own (callable) parameter - its result is what that callable returns
            fac = self.prog.functions.get(f"{self.f.module}.{a.func.id}")
            if fac is not None and isinstance(fac.node, ast.FunctionDef) and len(fac.params) == len(a.args):
                inner = [n for n in fac.node.body if isinstance(n, ast.FunctionDef)]
                rets = [n for n in fac.node.body if isinstance(n, ast.Return)]
                if len(inner) == 1 and len(rets) == 1 and isinstance(rets[0].value, ast.Name) and rets[0].value.id == inner[0].name:
                    irets = [n for n in ast.walk(inner[0]) if isinstance(n, ast.Return)]
                    if irets and all(isinstance(r.value, ast.Call) and isinstance(r.value.func, ast.Name) and r.value.func.id in fac.params
                                     for r in irets):
                        return all(self._is_fresh_returning_callable(x) for x in a.args)
        return False

    def _call_local(self, nm: str, call: ast.Call, args, kws) -> Prov:
        node = self.local_funcs[nm]
        # find FuncInfo
        fi = None
        for f in self.prog.functions.values():
            if f.node is node:
                fi = f
                break
        if fi is None:
            return FRESH
        env = dict(self.env)
        params = fi.params
        for i, p in enumerate(params):
            if i < len(args):
                env[p] = args[i]
            elif p in kws:
                env[p] = kws[p]
            else:
                env[p] = FRESH
        if len(self.via) > 6:
            return FRESH
        an = _FuncAnalysis(self.eff, fi, env, self.via)
        # closure sees the parent's local callables
        an.local_funcs.update(self.local_funcs)
        an.run()
        if self.collect:
            for w in an.writes:
                self.writes.add(w)
        return an.ret

    def _call_ctor(self, cls: str, call: ast.Call, args, kws) -> Prov:
        # constructor: apply __init__ summary with a fresh self
        init = self.prog.method(cls, "__init__")
        if init is not None:
            self._apply(init, FRESH, call, args, kws)
        if cls in ("Vector", "Table", "_Int", "_Float", "_String", "_Date"):
            new = self.prog.method(cls, "__new__")
            if new is not None and cls != "Row":
                self._apply(new, FRESH, call, args, kws)
        return FRESH

    def _apply(self, target: FuncInfo, recv: Optional[Prov], call: ast.Call, args, kws, static: bool = False) -> Prov:
        s = self.eff.summaries.get(target.qualname)
        if s is None:
            return FRESH
        params = target.params
        actual: Dict[str, Prov] = {}
        pi = 0
        if target.is_method and not static and "staticmethod" not in target.decorators and params:
            actual[params[0]] = recv if recv is not None else FRESH
            pi = 1
        for a in args:
            if pi < len(params):
                actual[params[pi]] = a
                pi += 1
        for k, v in kws.items():
            if k in params:
                actual[k] = v
        if self.collect:
            for w in s.writes:
                a = actual.get(w.root)
                if a is None:
                    continue
                # a write to a direct element of the parameter lands on the direct elements of the argument only
                tgt_roots = a.er if w.elem_only else (a.roots | a.elem)
                for r in tgt_roots:
                    eo = r.endswith("[]")
                    self.writes.add(Write(r[:-2] if eo else r, w.fld, w.func, w.line, w.text, (self.f.qualname,) + w.via, eo))
        roots, elem = E, E
        for q in s.ret.roots:
            a = actual.get(q[:-2] if q.endswith("[]") else q)
            if a is not None:
                roots |= a.all
        for q in s.ret.elem:
            a = actual.get(q[:-2] if q.endswith("[]") else q)
            if a is not None:
                elem |= a.all
        return Prov(roots, elem | roots)


_EFFECTS_CACHE: Dict[int, Effects] = {}


def effects_of(prog: Program) -> Effects:
    e = _EFFECTS_CACHE.get(id(prog))
    if e is None:
        e = Effects(prog)
        _EFFECTS_CACHE[id(prog)] = e
    return e

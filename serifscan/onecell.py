"""Sibling agreement of the `one cell or a sequence of cells?` tests.

The package decides in some twenty places whether an operand / assigned value is ONE cell or a sequence of cells, always by
`isinstance(x, Iterable)` with an exemption tuple (`not isinstance(x, (str, bytes, ...))`, or the negated form for the scalar
branch).  Text is exempted because Python can iterate it; so must be every NUMBER and every ENUM MEMBER: since Python 3.11 an
enum.Flag / IntFlag member iterates over its bits, and `Vector([1, 2]) + (Perm.R | Perm.W)` would add the bits pairwise.  Every
such test must therefore exempt str, bytes, bytearray, int, float, complex and Enum (an exemption kept in a helper evaluated in
line is seen through)."""
from __future__ import annotations

import ast
from typing import List, Tuple

REQUIRED = {"str", "bytes", "bytearray", "int", "float", "complex", "Enum"}


def _tuple_names(prog, module, node, depth=0):
    """The class names of an isinstance() type tuple: a tuple display, a module-level constant that is one, a concatenation of
    such (`_ONE_VALUE_TYPES + (Mapping,)`); None if it cannot be told."""
    if depth > 6:
        return None
    if isinstance(node, ast.Tuple):
        out = set()
        for e in node.elts:
            if isinstance(e, ast.Name):
                sub = _tuple_names(prog, module, e, depth + 1) if _is_const_tuple(prog, module, e.id) else {e.id}
                if sub is None:
                    return None
                out |= sub
            elif isinstance(e, ast.Starred):
                sub = _tuple_names(prog, module, e.value, depth + 1)
                if sub is None:
                    return None
                out |= sub
        return out
    if isinstance(node, ast.Name):
        from .core import module_binding
        b = module_binding(prog, module, node.id)
        if b is not None and b[0] == "constant" and isinstance(b[1], (ast.Tuple, ast.BinOp)):
            return _tuple_names(prog, module, b[1], depth + 1)
        return None
    if isinstance(node, ast.BinOp) and isinstance(node.op, ast.Add):
        a, b = _tuple_names(prog, module, node.left, depth + 1), _tuple_names(prog, module, node.right, depth + 1)
        return None if a is None or b is None else a | b
    return None


def _is_const_tuple(prog, module, name) -> bool:
    from .core import module_binding
    b = module_binding(prog, module, name)
    return b is not None and b[0] == "constant" and isinstance(b[1], (ast.Tuple, ast.BinOp))


def _own_sites(prog, f):
    """(line, operand text, exempted names, the Iterable test is negated?) of every test in f itself"""
    out = []
    for n in ast.walk(f.node):
        if not isinstance(n, ast.BoolOp):
            continue
        it_ops, ex = [], []
        for v in n.values:
            neg = isinstance(v, ast.UnaryOp) and isinstance(v.op, ast.Not)
            c = v.operand if neg else v
            if isinstance(c, ast.Call) and isinstance(c.func, ast.Name) and c.func.id in ("isinstance", "b_isinstance") and len(c.args) == 2:
                who = ast.unparse(c.args[0])
                if isinstance(c.args[1], ast.Name) and c.args[1].id == "Iterable":
                    it_ops.append((who, neg))
                else:
                    names = _tuple_names(prog, f.module, c.args[1])
                    if names is not None:
                        ex.append((who, neg, frozenset(names)))
        for who, neg in it_ops:
            for who2, neg2, names in ex:
                # `Iterable and not exempt` (sequence branch) or `not Iterable or exempt` (scalar branch)
                if who2 == who and neg2 != neg and {"str", "bytes"} <= names:
                    out.append((n.lineno, who, names, neg))
    return out


def _guards(h, who):
    """guard clauses of a predicate helper: `if [<flags> and] isinstance(<who>, T): return False` statements at its top level"""
    out = []
    for st in h.node.body:
        if isinstance(st, ast.If) and not st.orelse and len(st.body) == 1 and isinstance(st.body[0], ast.Return) \
                and isinstance(st.body[0].value, ast.Constant) and st.body[0].value.value is False:
            parts = st.test.values if isinstance(st.test, ast.BoolOp) and isinstance(st.test.op, ast.And) else [st.test]
            inst = [p for p in parts if isinstance(p, ast.Call) and isinstance(p.func, ast.Name) and p.func.id == "isinstance"
                    and len(p.args) == 2 and ast.unparse(p.args[0]) == who]
            if len(inst) == 1:
                out.append((inst[0], [p for p in parts if p is not inst[0]]))
    return out


def _guard_names(prog, h, who, call) -> set:
    """The classes a guard clause of the helper takes for ONE value at this call: a guard behind flags (`not mapping_too and ...`)
    counts when the flags hold for the constant arguments of the call - or cannot be told (no alarm on what is not decided)."""
    binding = {}
    params = list(h.params)
    for i, a in enumerate(call.args):
        if i < len(params) and isinstance(a, ast.Constant):
            binding[params[i]] = a.value
    for k in call.keywords:
        if k.arg and isinstance(k.value, ast.Constant):
            binding[k.arg] = k.value.value
    args_ = h.node.args
    pos = args_.posonlyargs + args_.args
    for a, d in zip(pos[len(pos) - len(args_.defaults):], args_.defaults):
        if a.arg not in binding and isinstance(d, ast.Constant) and not any(k.arg == a.arg for k in call.keywords) \
                and pos.index(a) >= len(call.args):
            binding[a.arg] = d.value
    for a, d in zip(args_.kwonlyargs, args_.kw_defaults):
        if a.arg not in binding and isinstance(d, ast.Constant) and not any(k.arg == a.arg for k in call.keywords):
            binding[a.arg] = d.value

    def flag(e):
        if isinstance(e, ast.Name) and e.id in binding:
            return bool(binding[e.id])
        if isinstance(e, ast.UnaryOp) and isinstance(e.op, ast.Not):
            r = flag(e.operand)
            return None if r is None else not r
        return None
    names = set()
    for inst, flags in _guards(h, who):
        if any(flag(x) is False for x in flags):
            continue
        got = _tuple_names(prog, h.module, inst.args[1]) if not isinstance(inst.args[1], ast.Name) or _is_const_tuple(prog, h.module, inst.args[1].id) \
            else {inst.args[1].id}
        names |= got or set()
    return names


def sites(prog, modules=("vector", "table")) -> List[Tuple[str, int, frozenset, bool]]:
    """(function, line, exempted names, complete?) for every Iterable-test that has an exemption tuple on the same operand.  A test
    kept in a small predicate helper (`_is_cell_sequence(obj)`: the tested operand is the helper's parameter) is ALSO reported at
    every call of the helper, under the calling function."""
    out = []
    helpers = {}
    for q, f in sorted(prog.functions.items()):
        if f.module not in modules or isinstance(f.node, ast.Lambda):
            continue
        for ln, who, names, _neg in _own_sites(prog, f):
            if who in f.params and f.parent is None:
                helpers.setdefault(f.name, []).append((f, who, names))
                if _guards(f, who):
                    continue          # (a predicate with guard clauses of its own: judged at its calls, with their arguments)
            out.append((q, ln, names, REQUIRED <= names))
    if helpers:
        for q, f in sorted(prog.functions.items()):
            if f.module not in modules or isinstance(f.node, ast.Lambda):
                continue
            for n in ast.walk(f.node):
                if isinstance(n, ast.Call):
                    nm = n.func.id if isinstance(n.func, ast.Name) else n.func.attr if isinstance(n.func, ast.Attribute) else None
                    if nm in helpers and nm != f.name:
                        for h, who, names in helpers[nm]:
                            names = frozenset(names | _guard_names(prog, h, who, n))
                            out.append((q, n.lineno, names, REQUIRED <= names))
    seen = set()
    res = []
    for s in out:
        if (s[0], s[1]) not in seen:
            seen.add((s[0], s[1]))
            res.append(s)
    return res

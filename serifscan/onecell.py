"""Sibling agreement of the `one cell or a sequence of cells?` tests.

The package decides in some twenty places whether an operand / assigned value is ONE cell or a sequence of cells, always by
`isinstance(x, Iterable)` with an exemption tuple (`not isinstance(x, (str, bytes, ...))`, or the negated form for the scalar
branch).  Text is exempted because Python can iterate it; so must be every NUMBER and every ENUM MEMBER: since Python 3.11 an
enum.Flag / IntFlag member iterates over its bits, and `Vector([1, 2]) + (Perm.R | Perm.W)` would add the bits pairwise.  Every
such test must therefore exempt str, bytes, bytearray, int, float, complex and Enum (an exemption kept in a helper evaluated in
line is seen through)."""
from __future__ import annotations

import ast
from typing import List, Tuple

REQUIRED = {"str", "bytes", "bytearray", "int", "float", "complex", "Enum"}


def sites(prog, modules=("vector", "table")) -> List[Tuple[str, int, frozenset, bool]]:
    """(function, line, exempted names, complete?) for every Iterable-test that has an exemption tuple on the same operand"""
    out = []
    for q, f in sorted(prog.functions.items()):
        if f.module not in modules or isinstance(f.node, ast.Lambda):
            continue
        for n in ast.walk(f.node):
            if not isinstance(n, ast.BoolOp):
                continue
            it_ops, ex = [], []
            for v in n.values:
                neg = isinstance(v, ast.UnaryOp) and isinstance(v.op, ast.Not)
                c = v.operand if neg else v
                if isinstance(c, ast.Call) and isinstance(c.func, ast.Name) and c.func.id in ("isinstance", "b_isinstance") and len(c.args) == 2:
                    who = ast.unparse(c.args[0])
                    if isinstance(c.args[1], ast.Name) and c.args[1].id == "Iterable":
                        it_ops.append((who, neg))
                    elif isinstance(c.args[1], ast.Tuple):
                        names = frozenset(e.id for e in c.args[1].elts if isinstance(e, ast.Name))
                        ex.append((who, neg, names))
            for who, neg in it_ops:
                for who2, neg2, names in ex:
                    # `Iterable and not exempt` (sequence branch) or `not Iterable or exempt` (scalar branch)
                    if who2 == who and neg2 != neg and {"str", "bytes"} <= names:
                        out.append((q, n.lineno, names, REQUIRED <= names))
    seen = set()
    res = []
    for s in out:
        if (s[0], s[1]) not in seen:
            seen.add((s[0], s[1]))
            res.append(s)
    return res

"""E8 - obligations, findings, known-findings matching, evidence, exit codes."""
from __future__ import annotations

import ast
import json
import os
import time
from dataclasses import dataclass, field
from typing import Any, Dict, List, Optional

from .core import AnalysisError, FuncInfo, Program, short

VERIF = os.path.dirname(os.path.dirname(os.path.abspath(__file__)))
KNOWN_FILE = os.path.join(VERIF, "known_findings.json")
EVIDENCE_DIR = os.environ.get("SERIFSCAN_EVIDENCE_DIR") or os.path.join(VERIF, "evidence")


@dataclass
class Finding:
    prop: str
    rule: str
    func: str
    role: str
    message: str
    loc: str = ""
    construct: str = ""
    witness: str = ""

    @property
    def key(self) -> str:
        return f"{self.prop}/{self.rule}/{self.func}/{self.role}"

    def render(self) -> str:
        lines = [f"  [{self.prop}.{self.rule}] {self.loc} in {self.func}", f"      {self.message}"]
        if self.construct:
            lines.append(f"      construct: {self.construct}")
        if self.witness:
            lines.append(f"      witness:   {self.witness}")
        lines.append(f"      key: {self.key}")
        return "\n".join(lines)


@dataclass
class Obligation:
    rule: str
    func: str
    role: str
    ok: bool
    what: str
    loc: str = ""


class Ctx:
    """Per-run context handed to a property's rule module."""

    def __init__(self, prop: str, prog: Program, tier: str = "quick", quiet: bool = False):
        self.prop = prop
        self.prog = prog
        self.tier = tier
        self.quiet = quiet
        self.obligations: List[Obligation] = []
        self.findings: List[Finding] = []
        self.infos: List[str] = []
        self.rule_texts: Dict[str, str] = {}
        self.minimums: Dict[str, int] = {}
        self.extra: Dict[str, Any] = {}
        self.exhaustive = False
        self.not_decided: List[str] = []
        self.analysis_errors: List[str] = []

    # -- rule registration ---------------------------------------------------
    def rule(self, rule_id: str, text: str, minimum: int = 1) -> None:
        self.rule_texts[rule_id] = text
        self.minimums[rule_id] = minimum

    # -- recording -----------------------------------------------------------
    def ob(self, rule: str, func, role: str, ok: bool, what: str, node: Optional[ast.AST] = None,
           message: str = "", witness: str = "") -> bool:
        fq = func.qualname if isinstance(func, FuncInfo) else str(func)
        loc = self.prog.loc(func, node) if isinstance(func, FuncInfo) else ""
        self.obligations.append(Obligation(rule, fq, role, bool(ok), what, loc))
        if not ok:
            self.findings.append(Finding(self.prop, rule, fq, role, message or what, loc,
                                         short(node, 140) if node is not None else "", witness))
        return bool(ok)

    def info(self, msg: str) -> None:
        self.infos.append(msg)

    def section(self, name: str, fn, *args) -> None:
        """Run one rule group; an AnalysisError inside it is recorded (exit 2 unless another
        rule group reports a VIOLATION) instead of hiding what the other groups find."""
        try:
            fn(*args)
        except AnalysisError as e:
            self.analysis_errors.append(f"{name}: {e}")

    def count(self, rule: str) -> int:
        return sum(1 for o in self.obligations if o.rule == rule)

    def check_minimums(self) -> None:
        """A rule that matched fewer instances than confirmed by hand cannot be trusted to have looked at everything:
        recorded as an analysis error (exit 2 unless some rule reports a VIOLATION, which wins)."""
        for rule, mn in self.minimums.items():
            c = self.count(rule)
            if c < mn and not any(e.startswith(f"minimum:{rule}") for e in self.analysis_errors):
                self.analysis_errors.append(
                    f"minimum:{rule}: rule {self.prop}.{rule} matched {c} instance(s), fewer than the {mn} confirmed by hand "
                    f"on the reference tree: the code changed shape beyond what the rule recognises "
                    f"(a rule matching nothing would pass vacuously)")


def load_known() -> dict:
    if not os.path.exists(KNOWN_FILE):
        return {"known": [], "fixed": []}
    with open(KNOWN_FILE) as f:
        return json.load(f)


def finish(ctx: Ctx, t0: float, seed: int, selftest: Optional[dict] = None) -> int:
    """Print the report, write evidence + replay files, return the exit code."""
    known = load_known()
    known_keys = {k["key"]: k for k in known.get("known", []) if k.get("property") == ctx.prop}
    new: List[Finding] = []
    matched_known: List[Finding] = []
    for f in ctx.findings:
        (matched_known if f.key in known_keys else new).append(f)

    os.makedirs(os.path.join(EVIDENCE_DIR, "replay"), exist_ok=True)
    # remove stale replay files of this property
    for fn in os.listdir(os.path.join(EVIDENCE_DIR, "replay")):
        if fn.startswith(ctx.prop + "-"):
            os.remove(os.path.join(EVIDENCE_DIR, "replay", fn))

    out: List[str] = []
    st = ctx.prog.stats()
    out.append(f"== {ctx.prop} ({ctx.tier}) - static analysis of {ctx.prog.root}: "
               f"{len(st['modules'])} modules, {st['functions']} functions, {st['source_lines']} lines")
    per_rule: Dict[str, List[Obligation]] = {}
    for o in ctx.obligations:
        per_rule.setdefault(o.rule, []).append(o)
    for rule, obs in per_rule.items():
        bad = sum(1 for o in obs if not o.ok)
        out.append(f"  rule {rule}: {len(obs)} instance(s), {len(obs) - bad} hold"
                   + (f", {bad} VIOLATED" if bad else "") + f"  -- {ctx.rule_texts.get(rule, '')[:150]}")
    for i in ctx.infos:
        out.append(f"  INFO: {i}")
    for f in matched_known:
        out.append(f"KNOWN-FINDING: property={ctx.prop} {known_keys[f.key].get('what', f.message)} [{f.key}]")
    replay_paths = []
    for n, f in enumerate(new, 1):
        out.append("VIOLATION DETAIL:")
        out.append(f.render())
        rp = os.path.join(EVIDENCE_DIR, "replay", f"{ctx.prop}-{n}.json")
        with open(rp, "w") as fh:
            json.dump({"property": ctx.prop, "key": f.key, "rule": f.rule, "function": f.func, "role": f.role,
                       "message": f.message, "loc": f.loc, "construct": f.construct, "witness": f.witness,
                       "tier": ctx.tier}, fh, indent=1)
        replay_paths.append(rp)
        out.append(f"VIOLATION property={ctx.prop} replay={rp}")
    if selftest:
        out.append(f"  self-test: mutants fired {selftest['fired']}/{selftest['armed']} "
                   f"(skipped {selftest['skipped']}), twins silent {selftest['twins_silent']}/{selftest['twins']}, "
                   f"seeded fired {selftest.get('seeded_fired', 0)}/{selftest.get('seeded', 0)}, "
                   f"refactoring twins silent {selftest.get('refactor_twins_silent', 0)}/{selftest.get('refactor_twins', 0)}")
        for m in selftest.get("missed", []):
            out.append(f"  self-test MISSED: {m}")
        for m in selftest.get("noisy", []):
            out.append(f"  self-test NOISY TWIN: {m}")
    for e in ctx.analysis_errors:
        out.append(f"ANALYSIS-ERROR property={ctx.prop}: {e}")
    total = len(ctx.obligations)
    held = sum(1 for o in ctx.obligations if o.ok)
    out.append(f"  {ctx.prop}: {held}/{total} obligations hold, {len(new)} violation(s), "
               f"{len(matched_known)} known finding(s)")
    if not ctx.quiet:
        print("\n".join(out))

    samples = []
    seen_rules = set()
    for o in ctx.obligations:
        if o.rule not in seen_rules or len(samples) < 12:
            seen_rules.add(o.rule)
            samples.append({"rule": o.rule, "function": o.func, "role": o.role, "what": o.what,
                            "loc": o.loc, "holds": o.ok})
        if len(samples) >= 40:
            break
    distinct = len({(o.rule, o.func, o.role) for o in ctx.obligations})
    coverage = {
        "explanation": (
            f"Static rules for {ctx.prop} evaluated over the syntax trees / CFGs of the current /repo/src/serif "
            f"working tree (no code of the package is imported or executed). Each obligation is one rule instance "
            f"(a construct of the source: function, call site, store, path); 'discharged' counts the instances on "
            f"which the rule holds. Rules: " + " | ".join(f"{k}: {v}" for k, v in ctx.rule_texts.items())),
        "obligations": total,
        "discharged": held,
        "evaluations": total,
        "distinct_nontrivial": distinct,
        "rule": "one obligation per (rule, function, construct role); distinct = distinct triples; every instance is "
                "a construct of the analysed source, so none is trivial by construction",
        "samples": samples,
        "exhaustive": bool(ctx.exhaustive),
        "per_rule": {r: {"instances": len(obs), "hold": sum(1 for o in obs if o.ok),
                         "minimum_expected": ctx.minimums.get(r, 1)} for r, obs in per_rule.items()},
        "analysed": st,
        "findings": [{"key": f.key, "message": f.message, "loc": f.loc, "known": f.key in known_keys}
                     for f in ctx.findings],
        "info": ctx.infos,
        "not_decided": ctx.not_decided,
        "analysis_errors": ctx.analysis_errors,
        "checker_cmd": f"python -m serifscan check {ctx.prop} --tier {ctx.tier}",
        "trusted_base": ["CPython ast module", "serifscan engine (CFG, abstract evaluators, matchers)",
                         "assumption: package not monkey-patched; internals reached only through the names in the source"],
    }
    coverage.update(ctx.extra)
    if selftest:
        coverage["selftest"] = selftest
    ev = {
        "property_id": ctx.prop,
        "tier": ctx.tier,
        "seed": seed,
        "level": "other",
        "coverage": coverage,
        "assumptions": [
            "Python semantics of the analysed constructs are as modelled by the engine (see DESIGN.md section 0)",
            "no monkey-patching; no setattr/getattr with computed names on the internal fields",
            "a structural necessary condition is decided, not the run-time values (see not_decided)",
        ],
        "wall_s": round(time.time() - t0, 3),
        "violations": len(new),
    }
    with open(os.path.join(EVIDENCE_DIR, f"{ctx.prop}.json"), "w") as fh:
        json.dump(ev, fh, indent=1, default=str)
    if new:
        return 1
    return 2 if ctx.analysis_errors else 0

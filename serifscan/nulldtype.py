"""dtype nullness: a vector built from no data and no dtype (Vector([]), the columns of Table({'a': []})) has `_dtype is None`
(and `schema()` returns it).  Every dereference `X._dtype.<attr>` / `X.schema().<attr>` must therefore be dominated by a test that
the dtype is not None - on the path (guard clauses, if / elif chains) or inside the expression (`a and a.kind`, conditional
expressions) - or X must be `self` in a method of a typed subclass (_Int, _Float, _String, _Date: Vector.__new__ dispatches to them
only with a dtype).  Decided on the symx event log of every function of the package."""
from __future__ import annotations

import ast
from typing import List, Set, Tuple

from .symx import Interp, show

NONE = ("const", "NoneType", None)
TYPED = {"_Int", "_Float", "_String", "_Date"}


def dtype_owner(t):
    """X if t is X._dtype or X.schema()"""
    if t[0] == "attr" and t[2] == "_dtype":
        return t[1]
    if t[0] == "call" and t[1][0] == "attr" and t[1][2] == "schema" and not t[2] and not t[3]:
        return t[1][1]
    return None


def _same_dtype_terms(t):
    """X._dtype and X.schema() are the same value (schema() returns the field)"""
    x = dtype_owner(t)
    return {("attr", x, "_dtype"), ("call", ("attr", x, "schema"), (), ())}


def facts_from(c, pol: bool, out: Set) -> None:
    """dtype terms known to be non-None when condition c has truth value pol (`out` also remembers the conditions themselves as
    ("T", c) / ("F", c): a conjunction known false whose other conjuncts are known true makes the remaining one false - the form a
    chain of guard clauses `if not isinstance(..): return False; if s is None: return False; ...` takes once it is evaluated in line)"""
    out.add(("T" if pol else "F", c))
    if c[0] == "bool" and c[1] == "and" and not pol:
        rest = [x for x in c[2] if ("T", x) not in out]
        if len(rest) == 1:
            facts_from(rest[0], False, out)
    elif c[0] == "bool" and c[1] == "or" and pol:
        rest = [x for x in c[2] if ("F", x) not in out]
        if len(rest) == 1:
            facts_from(rest[0], True, out)
    if c[0] == "bool" and c[1] == "and" and pol:
        for x in c[2]:
            facts_from(x, True, out)
    elif c[0] == "bool" and c[1] == "or" and not pol:
        for x in c[2]:
            facts_from(x, False, out)
    elif c[0] == "un" and c[1] == "Not":
        facts_from(c[2], not pol, out)
    elif c[0] == "cmp" and c[1] in ("Is", "IsNot") and c[3] == NONE and dtype_owner(c[2]) is not None:
        if (c[1] == "IsNot") == pol:
            out |= _same_dtype_terms(c[2])
    elif dtype_owner(c) is not None and pol:
        out |= _same_dtype_terms(c)          # truthiness of X._dtype: a DataType is truthy, None is not
    elif c[0] == "call" and c[1] == ("name", "bool") and len(c[2]) == 1 and not c[3]:
        facts_from(c[2][0], pol, out)        # bool(X._dtype)


_DT_ATTRS = {"kind", "nullable", "with_nullable", "promote_with"}


def _maybe_none_dtype(v, known) -> bool:
    """a value that is a dtype term not known to be non-None (through conditional expressions)"""
    if v[0] == "ifexp":
        k1 = set(known)
        facts_from(v[1], True, k1)
        k2 = set(known)
        facts_from(v[1], False, k2)
        return _maybe_none_dtype(v[2], k1) or _maybe_none_dtype(v[3], k2)
    return dtype_owner(v) is not None and v not in known


def unguarded(t, known: Set, found: List, it=None) -> None:
    """dtype terms dereferenced in t while not known to be non-None (short-circuit and conditional expressions respected)"""
    if not isinstance(t, tuple) or not t:
        return
    k = t[0]
    if k == "attr" and dtype_owner(t[1]) is not None:
        if t[1] not in known:
            found.append(t[1])
        unguarded(dtype_owner(t[1]), known, found, it)
        return
    if k == "attr" and t[2] in _DT_ATTRS and t[1][0] == "elem" and it is not None and t[1][1][0] == "obj":
        # a dtype taken out of a collection of dtypes ([col._dtype for col in cols]): what was put in?
        for e in it.events:
            if e.kind == "elem" and e.term == t[1][1] and _maybe_none_dtype(e.value, set()):
                found.append(e.value if e.value[0] != "ifexp" else t[1])
                break
    if k == "bool":
        kn = set(known)
        for x in t[2]:
            unguarded(x, kn, found, it)
            facts_from(x, t[1] == "and", kn)
        return
    if k == "ifexp":
        unguarded(t[1], known, found, it)
        k1 = set(known)
        facts_from(t[1], True, k1)
        unguarded(t[2], k1, found, it)
        k2 = set(known)
        facts_from(t[1], False, k2)
        unguarded(t[3], k2, found, it)
        return
    for x in t[1:]:
        if isinstance(x, tuple):
            if x and isinstance(x[0], str):
                unguarded(x, known, found, it)
            else:
                for y in x:
                    if isinstance(y, tuple):
                        unguarded(y, known, found, it)


def analyse(prog) -> Tuple[int, List[Tuple[str, int, str, object]]]:
    """(number of guarded dereference sites, [(function, line, dtype term text, node)] of the unguarded ones)"""
    flagged = []
    sites = set()
    for q, f in sorted(prog.functions.items()):
        if isinstance(f.node, ast.Lambda) or f.parent is not None:
            continue
        if not any(isinstance(n, ast.Attribute) and n.attr in ("_dtype", "schema") for n in ast.walk(f.node)):
            continue
        it = Interp(prog, f)
        SELF = ("param", f.params[0]) if f.params else None
        seen = set()
        for e in it.events:
            known: Set = set()
            if f.cls in TYPED and SELF is not None:
                known |= {("attr", SELF, "_dtype"), ("call", ("attr", SELF, "schema"), (), ())}
            for c, pol in e.conds:
                fd: List = []
                unguarded(c, known, fd, it)
                for d in fd:
                    key = (q, d)
                    if key not in seen:
                        seen.add(key)
                        flagged.append((q, getattr(e.node, "lineno", 0), show(d, it)[:60], e.node))
                facts_from(c, pol, known)
            for t in (e.term, e.value):
                if t is None:
                    continue
                fd = []
                unguarded(t, known, fd, it)
                for d in fd:
                    key = (q, d)
                    if key not in seen:
                        seen.add(key)
                        flagged.append((q, getattr(e.node, "lineno", 0), show(d, it)[:60], e.node))
            for t in [c for c, _ in e.conds] + [x for x in (e.term, e.value) if x is not None]:
                stack = [t]
                while stack:
                    x = stack.pop()
                    if isinstance(x, tuple) and x:
                        if isinstance(x[0], str) and x[0] == "attr" and isinstance(x[1], tuple) and x[1] and isinstance(x[1][0], str) \
                                and dtype_owner(x[1]) is not None:
                            sites.add((q, getattr(e.node, "lineno", 0), x))
                        stack.extend(y for y in x if isinstance(y, tuple))
    return len(sites), flagged

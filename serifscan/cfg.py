"""E3 - statement-level control-flow graph for one function, with the path
queries the rules need (reachability, dominance, post-dominance,
must-pass-through with a witness path).

Granularity: one node per simple statement; compound statements contribute a
header node (the `if`/`while` test, the `for` iteration step, the `with` entry,
the `except` clause entry).  Expression-level control flow (comprehensions,
conditional expressions, short-circuit operators) is NOT in the graph; rules
reason about those inside the expression.

Exceptions: an explicit `raise` goes to the innermost enclosing handler that can
catch it (matched by exception class name through the package's error hierarchy
when the name is known, otherwise to every handler) or to RAISE_EXIT.  Inside a
`try` body every statement additionally has an edge to every handler of that
try (any statement may raise).  Outside a `try`, implicit exceptions leave the
function and are not modelled as edges - rules about atomicity enumerate
"may-raise" events explicitly instead.
"""
from __future__ import annotations

import ast
from collections import deque
from typing import Callable, Dict, Iterable, List, Optional, Set, Tuple

from .core import AnalysisError, FuncInfo, short

# exception hierarchy known to the matcher (child -> parents)
EXC_PARENTS = {
    "SerifKeyError": {"SerifError", "KeyError", "LookupError", "Exception"},
    "SerifTypeError": {"SerifError", "TypeError", "Exception"},
    "SerifValueError": {"SerifError", "ValueError", "Exception"},
    "SerifIndexError": {"SerifError", "IndexError", "LookupError", "Exception"},
    "SerifError": {"Exception"},
    "AliasError": {"Exception"},
    "KeyError": {"LookupError", "Exception"},
    "IndexError": {"LookupError", "Exception"},
    "TypeError": {"Exception"},
    "ValueError": {"Exception"},
    "AttributeError": {"Exception"},
    "AssertionError": {"Exception"},
    "StopIteration": {"Exception"},
}


class Node:
    __slots__ = ("id", "kind", "ast", "succ", "pred", "label")

    def __init__(self, nid: int, kind: str, node: Optional[ast.AST], label: str = ""):
        self.id = nid
        self.kind = kind          # entry exit raise_exit stmt test for with except
        self.ast = node
        self.succ: List[Tuple["Node", str]] = []
        self.pred: List["Node"] = []
        self.label = label

    @property
    def lineno(self) -> int:
        return getattr(self.ast, "lineno", 0) if self.ast is not None else 0

    def __repr__(self):
        if self.kind in ("entry", "exit", "raise_exit"):
            return f"<{self.kind}>"
        return f"<{self.kind}@{self.lineno} {self.text()}>"

    def text(self) -> str:
        if self.ast is None:
            return self.kind
        if self.kind == "test":
            return "if " + short(self.ast, 70)
        if self.kind == "for":
            return "for " + short(self.ast.target, 30) + " in " + short(self.ast.iter, 50)
        if self.kind == "except":
            return "except " + (short(self.ast.type, 40) if self.ast.type is not None else "")
        if self.kind == "with":
            return "with " + ", ".join(short(i.context_expr, 40) for i in self.ast.items)
        return short(self.ast, 90)


class CFG:
    def __init__(self, func: FuncInfo):
        self.func = func
        self.nodes: List[Node] = []
        self.entry = self._new("entry", None)
        self.exit = self._new("exit", None)
        self.raise_exit = self._new("raise_exit", None)
        self._by_ast: Dict[int, Node] = {}
        self._loops: List[Tuple[Node, List[Node]]] = []       # (continue target, break sources)
        self._handlers: List[List[Node]] = []                  # enclosing try handler entry nodes
        ends = self._seq(func.body, [self.entry])
        for n in ends:
            self._link(n, self.exit)
        self._reach: Optional[Set[int]] = None
        self._dom: Optional[Dict[int, Set[int]]] = None
        self._pdom: Optional[Dict[int, Set[int]]] = None

    # ---- construction -----------------------------------------------------
    def _new(self, kind, node, label="") -> Node:
        n = Node(len(self.nodes), kind, node, label)
        self.nodes.append(n)
        return n

    def _edge(self, a: Node, b: Node, label: str = "") -> None:
        a.succ.append((b, label))
        b.pred.append(a)

    def _seq(self, body: List[ast.stmt], frontier: List[Node]) -> List[Node]:
        for st in body:
            frontier = self._stmt(st, frontier)
        return frontier

    def _connect(self, frontier: List[Tuple[Node, str]], n: Node) -> None:
        for p, lab in frontier:
            self._edge(p, n, lab)

    def _stmt(self, st: ast.stmt, frontier: List[Node]) -> List[Node]:
        # frontier entries are Nodes; branch labels are carried via LabeledNode wrappers
        if isinstance(st, ast.If):
            t = self._mk("test", st.test, frontier, owner=st)
            then_end = self._seq(st.body, [_L(t, "T")])
            else_end = self._seq(st.orelse, [_L(t, "F")]) if st.orelse else [_L(t, "F")]
            return then_end + else_end
        if isinstance(st, ast.While):
            t = self._mk("test", st.test, frontier, owner=st)
            breaks: List[Node] = []
            self._loops.append((t, breaks))
            body_end = self._seq(st.body, [_L(t, "T")])
            self._loops.pop()
            for n in body_end:
                self._link(n, t)
            is_true = isinstance(st.test, ast.Constant) and bool(st.test.value) is True
            out: List[Node] = [] if is_true else [_L(t, "F")]
            if st.orelse:
                out = self._seq(st.orelse, out)
            return out + breaks
        if isinstance(st, (ast.For, ast.AsyncFor)):
            h = self._mk("for", st, frontier, owner=st)
            breaks = []
            self._loops.append((h, breaks))
            body_end = self._seq(st.body, [_L(h, "iter")])
            self._loops.pop()
            for n in body_end:
                self._link(n, h)
            out = [_L(h, "done")]
            if st.orelse:
                out = self._seq(st.orelse, out)
            return out + breaks
        if isinstance(st, (ast.With, ast.AsyncWith)):
            w = self._mk("with", st, frontier, owner=st)
            return self._seq(st.body, [w])
        if isinstance(st, ast.Try):
            handler_nodes = []
            for h in st.handlers:
                hn = self._new("except", h)
                self._by_ast[id(h)] = hn
                handler_nodes.append(hn)
            self._handlers.append(handler_nodes)
            body_end = self._seq(st.body, frontier)
            self._handlers.pop()
            if st.orelse:
                body_end = self._seq(st.orelse, body_end)
            ends = list(body_end)
            for h, hn in zip(st.handlers, handler_nodes):
                # the handler body itself runs under the OUTER handlers
                if self._handlers:
                    for oh in self._handlers[-1]:
                        self._edge(hn, oh, "exc")
                ends += self._seq(h.body, [hn])
            if st.finalbody:
                ends = self._seq(st.finalbody, ends)
            return ends
        if isinstance(st, ast.Return):
            n = self._mk("stmt", st, frontier)
            self._edge(n, self.exit, "return")
            return []
        if isinstance(st, ast.Raise):
            n = self._mk("stmt", st, frontier, raise_edges=False)
            targets = self._raise_targets(st)
            for t in targets:
                self._edge(n, t, "raise")
            return []
        if isinstance(st, ast.Break):
            n = self._mk("stmt", st, frontier)
            if not self._loops:
                raise AnalysisError("break outside loop")
            self._loops[-1][1].append(n)
            return []
        if isinstance(st, ast.Continue):
            n = self._mk("stmt", st, frontier)
            if not self._loops:
                raise AnalysisError("continue outside loop")
            self._link(n, self._loops[-1][0])
            return []
        if isinstance(st, ast.Match):
            raise AnalysisError(f"match statement at line {st.lineno} is outside the CFG builder's subset")
        # simple statements, nested defs (opaque), asserts, etc.
        n = self._mk("stmt", st, frontier)
        return [n]

    def _mk(self, kind, node, frontier, owner=None, raise_edges=True) -> Node:
        n = self._new(kind, node)
        self._by_ast[id(node)] = n
        if owner is not None:
            self._by_ast[id(owner)] = n
        for p in frontier:
            self._link(p, n)
        if self._handlers and raise_edges:
            for h in self._handlers[-1]:
                self._edge(n, h, "exc")
        return n

    def _link(self, p, n: Node) -> None:
        if isinstance(p, _L):
            self._edge(p.node, n, p.label)
        else:
            self._edge(p, n, "")

    def _raise_targets(self, st: ast.Raise) -> List[Node]:
        name = None
        exc = st.exc
        if isinstance(exc, ast.Call):
            exc = exc.func
        if isinstance(exc, ast.Name):
            name = exc.id
        # walk outwards through handler stacks
        for handlers in reversed(self._handlers):
            matched = []
            for hn in handlers:
                typ = hn.ast.type
                caught = _handler_names(typ)
                if caught is None or name is None:
                    matched.append(hn)           # bare except / unknown: may catch
                elif name in caught or (EXC_PARENTS.get(name, set()) & caught) or "BaseException" in caught:
                    matched.append(hn)
                    break
            if matched:
                definite = name is not None and any(
                    (_handler_names(h.ast.type) is None) or name in (_handler_names(h.ast.type) or set())
                    or (EXC_PARENTS.get(name, set()) & (_handler_names(h.ast.type) or set()))
                    for h in matched)
                if definite:
                    return matched
                return matched + [self.raise_exit]
        return [self.raise_exit]

    # ---- lookups ------------------------------------------------------------
    def node_of(self, st: ast.AST) -> Node:
        n = self._by_ast.get(id(st))
        if n is None:
            raise AnalysisError(f"statement not in CFG of {self.func.qualname}: {short(st)}")
        return n

    def has_node(self, st: ast.AST) -> bool:
        return id(st) in self._by_ast

    def stmt_nodes(self) -> List[Node]:
        return [n for n in self.nodes if n.kind not in ("entry", "exit", "raise_exit")]

    def find(self, pred: Callable[[Node], bool]) -> List[Node]:
        return [n for n in self.stmt_nodes() if pred(n)]

    def enclosing_stmt_node(self, prog, expr: ast.AST) -> Node:
        """CFG node of the statement (or header) that contains expression `expr`."""
        n = expr
        while n is not None:
            if id(n) in self._by_ast:
                return self._by_ast[id(n)]
            n = prog.parent(n)
        raise AnalysisError(f"expression not under any CFG node in {self.func.qualname}: {short(expr)}")

    # ---- analyses -----------------------------------------------------------
    def reachable(self) -> Set[int]:
        if self._reach is None:
            seen = {self.entry.id}
            dq = deque([self.entry])
            while dq:
                n = dq.popleft()
                for s, _ in n.succ:
                    if s.id not in seen:
                        seen.add(s.id)
                        dq.append(s)
            self._reach = seen
        return self._reach

    def is_reachable(self, n: Node) -> bool:
        return n.id in self.reachable()

    def dominators(self) -> Dict[int, Set[int]]:
        if self._dom is None:
            reach = self.reachable()
            ids = [n.id for n in self.nodes if n.id in reach]
            full = set(ids)
            dom = {i: set(full) for i in ids}
            dom[self.entry.id] = {self.entry.id}
            changed = True
            while changed:
                changed = False
                for i in ids:
                    if i == self.entry.id:
                        continue
                    preds = [p.id for p in self.nodes[i].pred if p.id in reach]
                    new = set(full)
                    for p in preds:
                        new &= dom[p]
                    new |= {i}
                    if new != dom[i]:
                        dom[i] = new
                        changed = True
            self._dom = dom
        return self._dom

    def dominates(self, a: Node, b: Node) -> bool:
        """Every path entry -> b passes through a."""
        d = self.dominators()
        return b.id in d and a.id in d[b.id]

    def postdominators(self, include_raise: bool = False) -> Dict[int, Set[int]]:
        """Post-dominators w.r.t. the normal exit (or w.r.t. both exits through a
        virtual end when include_raise)."""
        key = "_pdom_r" if include_raise else "_pdom"
        cached = getattr(self, key, None)
        if cached is not None:
            return cached
        END = -1
        ids = [n.id for n in self.nodes]
        succ: Dict[int, List[int]] = {}
        for n in self.nodes:
            succ[n.id] = [s.id for s, _ in n.succ]
        succ[self.exit.id] = [END]
        succ[self.raise_exit.id] = [END] if include_raise else []
        full = set(ids) | {END}
        pdom = {i: set(full) for i in ids}
        pdom[END] = {END}
        changed = True
        while changed:
            changed = False
            for i in ids:
                ss = succ[i]
                if not ss:
                    new = set(full)    # dead end (raise exit when excluded): vacuous
                else:
                    new = set(full)
                    for s in ss:
                        new &= pdom[s]
                new |= {i}
                if new != pdom[i]:
                    pdom[i] = new
                    changed = True
        setattr(self, key, pdom)
        return pdom

    def postdominates(self, a: Node, b: Node, include_raise: bool = False) -> bool:
        """Every path b -> normal exit passes through a."""
        return a.id in self.postdominators(include_raise)[b.id]

    def path_avoiding(self, src: Node, dst: Iterable[Node], avoid: Callable[[Node], bool],
                      *, skip_src: bool = True, edge_ok: Optional[Callable[[Node, Node, str], bool]] = None
                      ) -> Optional[List[Node]]:
        """A path src -> (some node of dst) on which no intermediate node satisfies
        `avoid` (src itself is not tested when skip_src).  None if every path is
        blocked - i.e. every path passes through an `avoid` node (must-pass-through)."""
        targets = {d.id for d in dst}
        prev: Dict[int, Optional[int]] = {src.id: None}
        dq = deque([src])
        if not skip_src and avoid(src):
            return None
        while dq:
            n = dq.popleft()
            for s, lab in n.succ:
                if s.id in prev:
                    continue
                if edge_ok is not None and not edge_ok(n, s, lab):
                    continue
                if s.id in targets:
                    prev[s.id] = n.id
                    path = [s]
                    cur = n.id
                    while cur is not None:
                        path.append(self.nodes[cur])
                        cur = prev[cur]
                    return list(reversed(path))
                if avoid(s):
                    continue
                prev[s.id] = n.id
                dq.append(s)
        return None

    def nodes_between(self, src: Node, dst: Node) -> Set[int]:
        """ids of nodes lying on some path src -> dst."""
        fwd = self._closure(src, forward=True)
        bwd = self._closure(dst, forward=False)
        return fwd & bwd

    def _closure(self, start: Node, forward: bool) -> Set[int]:
        seen = {start.id}
        dq = deque([start])
        while dq:
            n = dq.popleft()
            nxt = [s for s, _ in n.succ] if forward else n.pred
            for s in nxt:
                if s.id not in seen:
                    seen.add(s.id)
                    dq.append(s)
        return seen

    def can_reach(self, a: Node, b: Node) -> bool:
        return b.id in self._closure(a, True)

    def fmt_path(self, path: List[Node]) -> str:
        return " -> ".join(f"L{n.lineno}:{n.text()}" if n.kind not in ("entry", "exit", "raise_exit") else n.kind
                           for n in path)


class _L:
    """A frontier entry carrying the label of the edge that will leave it."""
    __slots__ = ("node", "label")

    def __init__(self, node: Node, label: str):
        self.node = node
        self.label = label


def _handler_names(typ: Optional[ast.AST]) -> Optional[Set[str]]:
    if typ is None:
        return None
    if isinstance(typ, ast.Name):
        return {typ.id}
    if isinstance(typ, ast.Tuple):
        out = set()
        for e in typ.elts:
            if isinstance(e, ast.Name):
                out.add(e.id)
            else:
                return None
        return out
    return None


_CFG_CACHE: Dict[int, CFG] = {}


def cfg_of(func: FuncInfo) -> CFG:
    c = _CFG_CACHE.get(id(func.node))
    if c is None or c.func is not func:
        c = CFG(func)
        _CFG_CACHE[id(func.node)] = c
    return c


# ---------------------------------------------------------------------------
# reaching definitions of one local variable at a CFG node
# ---------------------------------------------------------------------------
def _defines(node: Node, var: str) -> Optional[ast.AST]:
    """If `node` (re)binds `var`, return the bound value expression (or the node's ast when there is no
    single value, e.g. loop targets / unpacking)."""
    st = node.ast
    if st is None:
        return None

    def binds(t) -> bool:
        if isinstance(t, ast.Name):
            return t.id == var
        if isinstance(t, (ast.Tuple, ast.List)):
            return any(binds(e) for e in t.elts)
        if isinstance(t, ast.Starred):
            return binds(t.value)
        return False
    if node.kind == "for":
        return st if binds(st.target) else None
    if node.kind == "with":
        return st if any(i.optional_vars is not None and binds(i.optional_vars) for i in st.items) else None
    if node.kind == "except":
        return st if st.name == var else None
    if node.kind != "stmt":
        # walrus in a test
        for n in ast.walk(st):
            if isinstance(n, ast.NamedExpr) and binds(n.target):
                return n.value
        return None
    if isinstance(st, ast.Assign):
        for t in st.targets:
            if isinstance(t, ast.Name) and t.id == var:
                return st.value
            if binds(t):
                return st
    elif isinstance(st, ast.AnnAssign):
        if st.value is not None and binds(st.target):
            return st.value
    elif isinstance(st, ast.AugAssign):
        if binds(st.target):
            return st
    elif isinstance(st, (ast.FunctionDef, ast.AsyncFunctionDef, ast.ClassDef)):
        if st.name == var:
            return st
    elif isinstance(st, (ast.Import, ast.ImportFrom)):
        if any((a.asname or a.name.split(".")[0]) == var for a in st.names):
            return st
    elif isinstance(st, ast.Delete):
        if any(binds(t) for t in st.targets):
            return st
    else:
        for n in ast.walk(st):
            if isinstance(n, ast.NamedExpr) and binds(n.target):
                return n.value
    return None


PARAM = "<param-or-undefined>"


def reaching_defs(cfg: CFG, var: str, at: Node) -> List[object]:
    """Definitions of `var` that may reach the ENTRY of node `at`: list of value expressions /
    defining statements, plus the marker PARAM if the function entry reaches `at` without a rebinding."""
    return [d for d, _ in reaching_def_nodes(cfg, var, at)]


def reaching_def_nodes(cfg: CFG, var: str, at: Node) -> List[Tuple[object, Optional[Node]]]:
    """As reaching_defs, but each definition comes with the CFG node that makes it (None for PARAM)."""
    out: List[Tuple[object, Optional[Node]]] = []
    seen = set()
    dq = deque(at.pred)
    for p in at.pred:
        seen.add(p.id)
    while dq:
        n = dq.popleft()
        if n.kind == "entry":
            if not any(x is PARAM for x, _ in out):
                out.append((PARAM, None))
            continue
        d = _defines(n, var)
        if d is not None:
            if not any(d is x for x, _ in out):
                out.append((d, n))
            continue
        for p in n.pred:
            if p.id not in seen:
                seen.add(p.id)
                dq.append(p)
    return out


# ---------------------------------------------------------------------------
# flag-sensitive path exploration
# ---------------------------------------------------------------------------
def _flag_assign(node: Node, flags) -> Optional[Tuple[str, Optional[bool]]]:
    """`flag = True/False` -> (flag, value) ; any other binding of a flag -> (flag, None)."""
    st = node.ast
    if node.kind == "stmt" and isinstance(st, ast.Assign):
        for t in st.targets:
            if isinstance(t, ast.Name) and t.id in flags:
                if isinstance(st.value, ast.Constant) and isinstance(st.value.value, bool):
                    return (t.id, st.value.value)
                return (t.id, None)
    if node.kind == "for" and isinstance(st.target, ast.Name) and st.target.id in flags:
        return (st.target.id, None)
    return None


def _flag_test(test: ast.AST, flags) -> Optional[Tuple[str, bool]]:
    """`if flag` -> (flag, True) ; `if not flag` -> (flag, False): value of the flag on the T edge."""
    if isinstance(test, ast.Name) and test.id in flags:
        return (test.id, True)
    if isinstance(test, ast.UnaryOp) and isinstance(test.op, ast.Not) and isinstance(test.operand, ast.Name) \
            and test.operand.id in flags:
        return (test.operand.id, False)
    return None


def flag_paths(cfg: CFG, start_edges: List[Tuple[Node, Node]], targets: Iterable[Node],
               blocked: Callable[[Node], bool], flags: Iterable[str]) -> Optional[List[Node]]:
    """Is there a FEASIBLE path from the given start edges to a target node that passes no `blocked`
    node, where feasibility tracks the boolean locals `flags` (assigned True/False constants, tested by
    `if flag` / `if not flag`)?  Returns a witness path or None.  Unknown flag values allow both edges."""
    flags = set(flags)
    tgt = {t.id for t in targets}
    init = tuple(sorted((f, None) for f in flags))
    dq = deque()
    seen = set()
    prev = {}
    for a, b in start_edges:
        k = (b.id, init)
        if k not in seen:
            seen.add(k)
            prev[k] = None
            dq.append(k)
    while dq:
        k = dq.popleft()
        nid, fl = k
        n = cfg.nodes[nid]
        if nid in tgt:
            path = []
            cur = k
            while cur is not None:
                path.append(cfg.nodes[cur[0]])
                cur = prev[cur]
            return list(reversed(path))
        if blocked(n):
            continue
        env = dict(fl)
        fa = _flag_assign(n, flags)
        if fa is not None:
            env[fa[0]] = fa[1]
        ft = _flag_test(n.ast, flags) if n.kind == "test" else None
        for s, lab in n.succ:
            env2 = dict(env)
            if ft is not None and lab in ("T", "F"):
                name, val_on_true = ft
                want = val_on_true if lab == "T" else (not val_on_true)
                if env.get(name) is not None and env[name] != want:
                    continue                      # infeasible edge
                env2[name] = want
            k2 = (s.id, tuple(sorted(env2.items())))
            if k2 not in seen:
                seen.add(k2)
                prev[k2] = k
                dq.append(k2)
    return None


# ---------------------------------------------------------------------------
# feasible paths: path enumeration with correlated branch outcomes
# ---------------------------------------------------------------------------
_DOM = frozenset(("none", "falsy", "truthy"))


def truth_set(test: ast.AST) -> Optional[Tuple[str, frozenset]]:
    """(subject text, abstract values of the subject for which `test` is true) for the truth-test forms
    X | not X | X is None | X is not None ; None for any other test."""
    if isinstance(test, ast.UnaryOp) and isinstance(test.op, ast.Not):
        r = truth_set(test.operand)
        return (r[0], _DOM - r[1]) if r else None
    if isinstance(test, ast.Compare) and len(test.ops) == 1 and isinstance(test.comparators[0], ast.Constant) \
            and test.comparators[0].value is None and isinstance(test.ops[0], (ast.Is, ast.IsNot)):
        if _chain(test.left) is None:
            return None
        on = frozenset(("none",))
        return (short(test.left), on if isinstance(test.ops[0], ast.Is) else _DOM - on)
    if isinstance(test, (ast.Name, ast.Attribute)) and _chain(test) is not None:
        return (short(test), frozenset(("truthy",)))
    return None


def _chain(node: ast.AST):
    out = []
    while isinstance(node, ast.Attribute):
        out.append(node.attr)
        node = node.value
    if isinstance(node, ast.Name):
        out.append(node.id)
        return list(reversed(out))
    return None


def implied(test: ast.AST, outcome: bool) -> List[Tuple[ast.AST, bool]]:
    """Atomic (test, outcome) facts implied by `test` evaluating to `outcome`:  (A and B) true => A, B true;
    (A or B) false => A, B false;  not A => A with the other outcome.  The test itself is always included."""
    out = [(test, outcome)]
    if isinstance(test, ast.BoolOp):
        if isinstance(test.op, ast.And) == outcome:
            for v in test.values:
                out += implied(v, outcome)
    elif isinstance(test, ast.UnaryOp) and isinstance(test.op, ast.Not):
        out += implied(test.operand, not outcome)
    return out


_NAMES_CACHE: Dict[str, Set[str]] = {}


def names_of_text(txt: str) -> Set[str]:
    r = _NAMES_CACHE.get(txt)
    if r is None:
        try:
            r = {x.id for x in ast.walk(ast.parse(txt, mode="eval")) if isinstance(x, ast.Name)}
        except SyntaxError:
            r = set()
        _NAMES_CACHE[txt] = r
    return r


def _value_class(v: ast.AST) -> Optional[frozenset]:
    """Abstract truth class of a literal right-hand side (None / falsy / truthy), None if unknown."""
    if isinstance(v, ast.Constant):
        if v.value is None:
            return frozenset(("none",))
        return frozenset(("truthy",)) if v.value else frozenset(("falsy",))
    if isinstance(v, (ast.List, ast.Tuple, ast.Set)) and not v.elts or isinstance(v, ast.Dict) and not v.keys:
        return frozenset(("falsy",))
    if isinstance(v, (ast.List, ast.Tuple, ast.Set)) and v.elts and not any(isinstance(e, ast.Starred) for e in v.elts):
        return frozenset(("truthy",))
    return None


def feasible_path(cfg: CFG, start: Node, targets: Iterable[Node], avoid: Optional[Callable[[Node], bool]] = None,
                  edge_ok: Optional[Callable[[Node, Node, str], bool]] = None, budget: int = 40000,
                  stop_at: Optional[Callable[[Node], bool]] = None) -> Optional[List[Node]]:
    """A simple path start -> some target on which no intermediate node satisfies `avoid` and whose branch outcomes are
    not contradictory: the same (unrebound) test is never taken both ways and the truth tests of one subject
    (X, not X, X is None, X is not None - facts follow plain copies `y = x` and literal assignments) always leave a
    possible value in {None, falsy, truthy}.  None when every such path is blocked or infeasible.
    Raises AnalysisError when the path budget is exhausted (never a silent pass)."""
    tset = {t.id for t in targets}
    left = [budget]

    def dfs(n: Node, path: List[Node], facts: Dict[str, frozenset], texts: Dict[str, bool], on_path: Set[int]):
        left[0] -= 1
        if left[0] < 0:
            raise AnalysisError(f"{cfg.func.qualname}: feasible-path search budget exhausted")
        for s, lab in n.succ:
            if s.id in on_path:
                continue
            if edge_ok is not None and not edge_ok(n, s, lab):
                continue
            nf, nt = facts, texts
            if n.kind == "test" and lab in ("T", "F"):
                nt, nf = dict(texts), dict(facts)
                ok = True
                for atom, out in implied(n.ast, lab == "T"):
                    txt = short(atom, 300)
                    prev = nt.get(txt)
                    if prev is not None and prev != out:
                        ok = False
                        break
                    nt[txt] = out
                    ts = truth_set(atom)
                    if ts is not None:
                        subj, on = ts
                        cur = nf.get(subj, _DOM) & (on if out else _DOM - on)
                        if not cur:
                            ok = False
                            break
                        nf[subj] = cur
                if not ok:
                    continue
            if s.id in tset:
                return path + [s]
            if avoid is not None and avoid(s):
                continue
            if stop_at is not None and stop_at(s):
                continue
            # effects of s on the recorded facts
            if s.ast is not None and s.kind != "test":
                copied: Dict[str, frozenset] = {}
                if s.kind == "stmt" and isinstance(s.ast, ast.Assign) and len(s.ast.targets) == 1 and _chain(s.ast.targets[0]) is not None:
                    tgt = short(s.ast.targets[0])
                    vc = _value_class(s.ast.value)
                    if vc is not None:
                        copied[tgt] = vc
                    elif _chain(s.ast.value) is not None and short(s.ast.value) in nf:
                        copied[tgt] = nf[short(s.ast.value)]
                stale_t = [k for k in nt if any(_defines(s, nm) is not None for nm in names_of_text(k))]
                stale_f = [k for k in nf if any(_defines(s, nm) is not None for nm in names_of_text(k))]
                if stale_t or stale_f or copied:
                    nt = {k: v for k, v in nt.items() if k not in stale_t}
                    nf = {k: v for k, v in nf.items() if k not in stale_f}
                    nf.update(copied)
            on_path.add(s.id)
            r = dfs(s, path + [s], nf, nt, on_path)
            on_path.discard(s.id)
            if r is not None:
                return r
        return None
    import sys
    if sys.getrecursionlimit() < 5000:
        sys.setrecursionlimit(5000)
    return dfs(start, [start], {}, {}, {start.id})

"""E5 - construction-site provenance.

For every `Vector(...)`, `cls(...)`, `Table(...)` and `<x>.copy(...)` call of the package:
which expression is the data, which the dtype, which the name (positional arguments are
mapped to the constructor's parameter names), and a provenance class for each, computed by
following local definitions (reaching definitions on the CFG).

data  : SAME(obj)            identity / slice / filter / permutation / gather of obj's own elements
        SAME-NOTNONE(obj)    the same, filtered by `is not None`
        FILL(obj, v)         `v if x is None else x` over obj's elements
        KIND(bool)           every element expression is syntactically boolean
        NEVER-NONE           every element expression is a display/constructor that cannot be None
        VECTORS              the elements are Vector-valued (a table construction: no dtype discipline)
        PARAM(p)             the caller's data (checked at the callers)
        COMPUTED             anything else (mapped, concatenated, gathered from several sources)
dtype : ABSENT | INFER(expr) | OF(obj) | OF(obj).with_nullable(X) | CONST(K, nullable) | PARAM(p) | OTHER
name  : ABSENT | NONE | OF(obj) | EXPR(text)
"""
from __future__ import annotations

import ast
from dataclasses import dataclass, field
from typing import List, Optional, Tuple

from .cfg import PARAM, cfg_of, reaching_def_nodes
from .core import AnalysisError, FuncInfo, Program, attr_chain, kwarg, short, walk_no_nested

CTOR_PARAMS = ["initial", "dtype", "name", "as_row"]


@dataclass
class Site:
    func: FuncInfo
    call: ast.Call
    kind: str                    # Vector | cls | Table | copy
    data: Optional[ast.AST]
    dtype: Optional[ast.AST]
    name: Optional[ast.AST]
    name_given: bool
    data_class: str = "?"
    data_obj: str = ""
    data_detail: str = ""
    dtype_class: str = "?"
    dtype_obj: str = ""
    dtype_detail: str = ""
    name_class: str = "?"
    name_obj: str = ""
    table_context: bool = False
    guards: List[str] = field(default_factory=list)

    @property
    def role(self) -> str:
        return f"{self.kind}@{short(self.data, 40) if self.data is not None else '-'}|{short(self.dtype, 30) if self.dtype is not None else '-'}"


def all_sites(prog: Program) -> List[Site]:
    out = []
    for q, f in prog.functions.items():
        if isinstance(f.node, ast.Lambda):
            continue
        for c in _calls_own(f):
            k = None
            if isinstance(c.func, ast.Name) and c.func.id in ("Vector", "Table", "cls", "_Int", "_Float", "_String", "_Date"):
                k = c.func.id if c.func.id in ("Vector", "Table", "cls") else "Vector"
                if c.func.id == "cls" and not (f.cls and "classmethod" in f.decorators):
                    continue
            elif isinstance(c.func, ast.Attribute) and c.func.attr == "copy" and not _is_builtin_copy(prog, f, c):
                k = "copy"
            if k is None:
                continue
            out.append(_site(prog, f, c, k))
    return out


def _calls_own(f: FuncInfo):
    """Calls lexically in f but not in nested defs (lambdas included)."""
    return [n for st in f.body for n in walk_no_nested(st) if isinstance(n, ast.Call)]


def _is_builtin_copy(prog, f, c) -> bool:
    # d.copy() on a dict/list local: receiver bound to a display
    return False


def _site(prog: Program, f: FuncInfo, c: ast.Call, kind: str) -> Site:
    if kind == "copy":
        data = c.args[0] if c.args else kwarg(c, "new_values")
        name = kwarg(c, "name")
        if name is None and len(c.args) > 1:
            name = c.args[1]
        s = Site(f, c, kind, data, None, name, name is not None)
    else:
        vals = {}
        for i, a in enumerate(c.args):
            if i < len(CTOR_PARAMS):
                vals[CTOR_PARAMS[i]] = a
        for k in c.keywords:
            if k.arg:
                vals[k.arg] = k.value
        s = Site(f, c, kind, vals.get("initial"), vals.get("dtype"), vals.get("name"), "name" in vals)
    return s


# ---------------------------------------------------------------------------
# resolution helpers
# ---------------------------------------------------------------------------
class Resolver:
    def __init__(self, prog: Program, f: FuncInfo):
        self.prog = prog
        self.f = f
        self.cfg = cfg_of(f)

    def _locals(self):
        if not hasattr(self, "_loc"):
            from .astutil import Defs
            self._loc = set(Defs(self.f).assigns)
        return self._loc

    def node_of(self, expr: ast.AST):
        return self.cfg.enclosing_stmt_node(self.prog, expr)

    def defs(self, name: str, at_expr: ast.AST) -> List[Tuple[object, object]]:
        return reaching_def_nodes(self.cfg, name, self.node_of(at_expr))

    def resolve(self, e: ast.AST, at_expr: Optional[ast.AST] = None, depth: int = 0) -> List[ast.AST]:
        """All expressions a Name may stand for at the use (following single-step local definitions);
        [e] itself for non-names.  PARAM is returned as the marker string."""
        at_expr = at_expr or e
        if not isinstance(e, ast.Name) or depth > 5:
            return [e]
        if e.id not in self._locals():
            return [e]                 # a global / builtin name (object, bool, ...): stands for itself
        try:
            node = self.node_of(at_expr)
        except AnalysisError:
            return [e]
        ds = reaching_def_nodes(self.cfg, e.id, node)
        if not ds:
            return [e]
        out = []
        for d, dn in ds:
            if d is PARAM:
                out.append(PARAM)
            elif isinstance(d, ast.expr):
                if isinstance(d, ast.Name) and dn is not None and d.id != e.id:
                    sub = self._resolve_at(d, dn, depth + 1)
                    out.extend(sub)
                else:
                    out.append(d)
            else:
                out.append(d)       # a statement (loop target, unpacking, ...)
        return out

    def _resolve_at(self, e: ast.Name, node, depth: int) -> List[object]:
        ds = reaching_def_nodes(self.cfg, e.id, node)
        out = []
        for d, dn in ds:
            if d is PARAM:
                out.append(PARAM)
            elif isinstance(d, ast.expr) and isinstance(d, ast.Name) and depth < 5 and d.id != e.id:
                out.extend(self._resolve_at(d, dn, depth + 1))
            else:
                out.append(d)
        return out or [e]

    def guards(self, expr: ast.AST) -> List[Tuple[ast.AST, bool]]:
        """`if` tests dominating the statement of `expr`, with the polarity of the branch taken."""
        node = self.node_of(expr)
        out = []
        for t in self.cfg.nodes:
            if t.kind == "test" and t is not node and self.cfg.dominates(t, node):
                tsucc = [s for s, lab in t.succ if lab == "T"]
                fsucc = [s for s, lab in t.succ if lab == "F"]
                reach_t = any(s is node or self.cfg.can_reach(s, node) for s in tsucc)
                reach_f = any(s is node or self.cfg.can_reach(s, node) for s in fsucc)
                if reach_t and not reach_f:
                    out.append((t.ast, True))
                elif reach_f and not reach_t:
                    out.append((t.ast, False))
        return out


# ---------------------------------------------------------------------------
# element-kind recognisers
# ---------------------------------------------------------------------------
def is_bool_expr(e: ast.AST) -> bool:
    if isinstance(e, ast.Constant):
        return isinstance(e.value, bool)
    if isinstance(e, ast.Compare):
        # comparisons of arbitrary objects may return non-bools (rich comparison), but `is`, `is not`, `in` are bool
        return all(isinstance(op, (ast.Is, ast.IsNot, ast.In, ast.NotIn)) for op in e.ops)
    if isinstance(e, ast.UnaryOp) and isinstance(e.op, ast.Not):
        return True
    if isinstance(e, ast.Call) and isinstance(e.func, ast.Name) and e.func.id in ("bool", "isinstance", "b_isinstance", "callable", "hasattr"):
        return True
    if isinstance(e, ast.IfExp):
        return is_bool_expr(e.body) and is_bool_expr(e.orelse)
    if isinstance(e, ast.BoolOp):
        return all(is_bool_expr(v) for v in e.values)
    return False


def is_never_none_expr(e: ast.AST) -> bool:
    if isinstance(e, (ast.Tuple, ast.List, ast.Dict, ast.Set, ast.JoinedStr)):
        return True
    if isinstance(e, ast.Constant):
        return e.value is not None
    return is_bool_expr(e)


def comp_of(e: ast.AST):
    """tuple(<gen>) / list(<gen>) / <gen> / [listcomp] -> the comprehension node (or None)."""
    if isinstance(e, ast.Call) and isinstance(e.func, ast.Name) and e.func.id in ("tuple", "list") and len(e.args) == 1:
        e = e.args[0]
    if isinstance(e, (ast.GeneratorExp, ast.ListComp)):
        return e
    return None


def iter_source(it: ast.AST) -> Optional[str]:
    """What a comprehension iterates: 'self' for `self` / `self._underlying` ; 'zip:self,key' ; None otherwise."""
    ch = attr_chain(it)
    if ch:
        if ch[-1] == "_underlying":
            return ".".join(ch[:-1])
        if len(ch) == 1:
            return ch[0]
    return None


def same_elements_of(e: ast.AST) -> Optional[Tuple[str, str]]:
    """If `e` denotes a sequence made only of elements of obj's storage (identity, slice, filter,
    permutation, gather): return (obj, how)."""
    ch = attr_chain(e)
    if ch and ch[-1] == "_underlying":
        return (".".join(ch[:-1]), "identity")
    if isinstance(e, ast.Subscript):
        ch = attr_chain(e.value)
        if ch and ch[-1] == "_underlying":
            return (".".join(ch[:-1]), "slice/index")
    if isinstance(e, ast.Call) and isinstance(e.func, ast.Name) and e.func.id in ("list", "tuple", "sorted", "reversed") and e.args:
        inner = same_elements_of(e.args[0])
        if inner:
            return (inner[0], inner[1] if e.func.id in ("list", "tuple") else "permutation")
    if isinstance(e, ast.IfExp):
        a, b = same_elements_of(e.body), same_elements_of(e.orelse)
        if a and b and a[0] == b[0]:
            return (a[0], "identity")
    c = comp_of(e)
    if c is not None and len(c.generators) == 1:
        g = c.generators[0]
        elt = c.elt
        # (x for x in obj._underlying [if ...])
        if isinstance(g.target, ast.Name) and isinstance(elt, ast.Name) and elt.id == g.target.id:
            src = iter_source(g.iter)
            if src:
                how = "filter" if g.ifs else "identity"
                if g.ifs and all(_is_not_none_test(t, g.target.id) for t in g.ifs):
                    how = "filter-not-none"
                return (src, how)
        # (x for x, y in zip(obj, key, ...) if y)
        if isinstance(g.target, ast.Tuple) and isinstance(g.iter, ast.Call) and isinstance(g.iter.func, ast.Name) \
                and g.iter.func.id == "zip" and g.iter.args and isinstance(elt, ast.Name) \
                and isinstance(g.target.elts[0], ast.Name) and elt.id == g.target.elts[0].id:
            src = iter_source(g.iter.args[0])
            if src:
                return (src, "mask")
        # (obj[x] for x in key)
        if isinstance(elt, ast.Subscript) and isinstance(g.target, ast.Name) and isinstance(elt.slice, ast.Name) \
                and elt.slice.id == g.target.id and not g.ifs:
            src = iter_source(elt.value)
            if src:
                return (src, "gather")
    return None


def _is_not_none_test(t: ast.AST, var: str) -> bool:
    return isinstance(t, ast.Compare) and len(t.ops) == 1 and isinstance(t.ops[0], ast.IsNot) \
        and isinstance(t.left, ast.Name) and t.left.id == var and isinstance(t.comparators[0], ast.Constant) \
        and t.comparators[0].value is None


def fill_of(e: ast.AST) -> Optional[Tuple[str, str]]:
    """tuple(v if x is None else x for x in obj._underlying) -> (obj, v-text)"""
    c = comp_of(e)
    if c is not None and len(c.generators) == 1 and not c.generators[0].ifs and isinstance(c.generators[0].target, ast.Name):
        x = c.generators[0].target.id
        elt = c.elt
        if isinstance(elt, ast.IfExp) and isinstance(elt.orelse, ast.Name) and elt.orelse.id == x \
                and isinstance(elt.test, ast.Compare) and len(elt.test.ops) == 1 and isinstance(elt.test.ops[0], ast.Is) \
                and isinstance(elt.test.left, ast.Name) and elt.test.left.id == x \
                and isinstance(elt.test.comparators[0], ast.Constant) and elt.test.comparators[0].value is None:
            src = iter_source(c.generators[0].iter)
            if src:
                return (src, short(elt.body))
    return None


def vector_valued(prog: Program, f: FuncInfo, e: ast.AST, res: Resolver, depth: int = 0) -> bool:
    """Do the ELEMENTS of data expression e evaluate to Vectors (=> table construction)?"""
    if depth > 4 or e is None or isinstance(e, str):
        return False
    if isinstance(e, ast.Name):
        return any(vector_valued(prog, f, d, res, depth + 1) for d in res.resolve(e) if isinstance(d, ast.expr) and d is not e)
    if isinstance(e, (ast.Tuple, ast.List)):
        return bool(e.elts) and all(_is_vector_expr(prog, f, x) for x in e.elts)
    if isinstance(e, ast.BinOp) and isinstance(e.op, ast.Add):
        return vector_valued(prog, f, e.left, res, depth + 1) and vector_valued(prog, f, e.right, res, depth + 1)
    if isinstance(e, ast.Call):
        ch = attr_chain(e.func)
        if ch and ch[-1] == "cols":
            return True
        if isinstance(e.func, ast.Name) and e.func.id in ("tuple", "list") and e.args:
            return vector_valued(prog, f, e.args[0], res, depth + 1)
    if isinstance(e, ast.Subscript):
        return vector_valued(prog, f, e.value, res, depth + 1)
    c = comp_of(e)
    if c is not None:
        return _is_vector_expr(prog, f, c.elt, c)
    return False


def _is_vector_expr(prog, f, x: ast.AST, comp=None) -> bool:
    if isinstance(x, ast.Name) and x.id in ("self", "other"):
        return True
    if isinstance(x, ast.Call):
        if isinstance(x.func, ast.Name) and x.func.id in ("Vector", "Table"):
            return True
        if isinstance(x.func, ast.Name) and x.func.id in ("op", "op_func") and comp is not None:
            # an operator applied to COLUMNS / ROWS of a table yields a vector per column
            it = comp.generators[0].iter
            over_cols = any(isinstance(n, ast.Call) and isinstance(n.func, ast.Attribute) and n.func.attr == "cols"
                            for n in ast.walk(it))
            return over_cols or f.cls == "Table"
        if isinstance(x.func, ast.Attribute) and x.func.attr in ("copy", "_elementwise_compare", "_elementwise_operation", "T"):
            return True
    if isinstance(x, ast.Attribute) and x.attr == "T":
        return True
    if isinstance(x, ast.BinOp):
        return True          # operator between columns (x << y, self @ col) yields a vector / scalar per column
    if isinstance(x, ast.Subscript) and comp is not None:
        # x[key] for x in self._underlying   inside a Table method: columns indexed by a row key
        g = comp.generators[0]
        if isinstance(x.value, ast.Name) and isinstance(g.target, ast.Name) and x.value.id == g.target.id \
                and f.cls == "Table" and attr_chain(g.iter) in (["self", "_underlying"],):
            return True
    return False

"""E7' - semantic model of the three hash-join variants, read off the symx event log.

Nothing here looks at the *shape* of the code (which loop statement, which helper, which index
idiom).  The model is built from terms:

  LC / RC        the operands' column tuples (self._underlying / other._underlying or .cols())
  NL / NR        their lengths; every length and buffer position is a LINEAR FORM a*NL + b*NR + c
  pairs          self._validate_join_keys(other, left_on, right_on)
  keys(side)     [p[i] for p in pairs]               key(side, row) = tuple(col[row] for col in keys(side))
  index          the dict that receives  index[key(R, r)] = [r]  /  bucket.append(r)
  bucket         index.get(key(L, probe row))
  RD             the column-major result buffers  [[] for _ in range(NL + NR)]  (+ derived appender lists, slices)
  emission       a call of a buffer's append: (block LEFT|RIGHT, value LEFT-ROW|RIGHT-ROW|NONE, aligned, row scope, extra conditions)

Unrecognised structure raises AnalysisError (exit 2); rules only report what the model positively shows.
"""
from __future__ import annotations

import ast
from dataclasses import dataclass, field
from typing import Dict, List, Optional, Sequence, Tuple

from .core import AnalysisError, FuncInfo, Program
from .symx import NONE, Cond, Event, Interp, Term, callee, const, elements, kw, show, show_conds, subterms

VARIANTS = ("inner_join", "join", "full_join")
Lin = Dict[str, int]


def lin_add(a: Optional[Lin], b: Optional[Lin], sign: int = 1) -> Optional[Lin]:
    if a is None or b is None:
        return None
    out = dict(a)
    for k, v in b.items():
        out[k] = out.get(k, 0) + sign * v
    return {k: v for k, v in out.items() if v}


def lin_min(a: Optional[Lin], b: Optional[Lin]) -> Optional[Lin]:
    """min of two linear forms over non-negative NL, NR (None when not comparable)."""
    if a is None or b is None:
        return None
    d = lin_add(a, b, -1)
    if all(v >= 0 for v in d.values()):
        return b
    if all(v <= 0 for v in d.values()):
        return a
    return None


def lin_show(a: Optional[Lin]) -> str:
    if a is None:
        return "?"
    if not a:
        return "0"
    return " + ".join((f"{v}*" if v != 1 or k == "1" else "") + (k if k != "1" else "").rstrip("*") if k != "1" else str(v)
                      for k, v in sorted(a.items()))


NL: Lin = {"NL": 1}
NR: Lin = {"NR": 1}
ZERO: Lin = {}
TOTAL: Lin = {"NL": 1, "NR": 1}


class JoinOrderViolation(AnalysisError):
    """the join has a recognisable shape that definitely emits rows out of left-row order (reported as a violation of the loop rule)"""
    def __init__(self, msg, node=None):
        super().__init__(msg)
        self.node = node


@dataclass
class Emission:
    ev: Event
    block: str                 # LEFT | RIGHT | ? (which block of result buffers the per-column loop fills)
    start: Optional[Lin]
    count: Optional[Lin]
    col_loop: Optional[int]    # the per-column loop
    value: str                 # LEFT-ROW | RIGHT-ROW | NONE | ?
    value_detail: str
    row_loop: Optional[int]    # the loop whose iteration is ONE emitted row (bucket loop / probe loop / sweep loop)
    context: str               # matched | unmatched-left | sweep | ?
    extra: Tuple[Cond, ...]    # conditions established inside the row scope beyond the context's own guard
    depth_ok: bool             # the per-column loop is a direct child of the row loop

    @property
    def node(self) -> ast.AST:
        return self.ev.node


class JoinModel:
    def __init__(self, prog: Program, variant: str):
        self.prog = prog
        self.variant = variant
        self.f: FuncInfo = prog.func(f"table.Table.{variant}")
        p = self.f.params
        if len(p) < 5:
            raise AnalysisError(f"{self.f.qualname}: expected (self, other, left_on, right_on, expect), got {p}")
        self.p = p
        self.S, self.O = ("param", p[0]), ("param", p[1])
        self.it = Interp(prog, self.f)
        self._build()

    # ------------------------------------------------------------------ basic vocabulary
    def _err(self, what: str):
        raise AnalysisError(f"{self.f.qualname}: join structure not recognised - {what}")

    def sh(self, t) -> str:
        return show(t, self.it)[:160]

    def cols_side(self, t: Term) -> Optional[str]:
        for side, tab in (("L", self.S), ("R", self.O)):
            if t == ("attr", tab, "_underlying") or t == ("call", ("attr", tab, "cols"), (), ()):
                return side
        if t[0] == "call" and t[1] in (("name", "tuple"), ("name", "list")) and len(t[2]) == 1:
            return self.cols_side(t[2][0])
        if t[0] == "obj" and self.it.objs[t[1]].kind == "list" and isinstance(self.it.objs[t[1]].node, ast.Call) \
                and len(self.it.objs[t[1]].init) == 1:
            return self.cols_side(self.it.objs[t[1]].init[0])
        return None

    def colseq(self, t: Term) -> Optional[List[str]]:
        """Sides, in order, of a sequence of source columns: LC -> [L]; (*LC, *RC) / LC + RC -> [L, R]."""
        s = self.cols_side(t)
        if s:
            return [s]
        if t[0] == "tuple":
            out: List[str] = []
            for x in t[1]:
                if x[0] != "star":
                    return None
                r = self.colseq(x[1])
                if r is None:
                    return None
                out += r
            return out
        if t[0] == "bin" and t[1] == "Add":
            a, b = self.colseq(t[2]), self.colseq(t[3])
            return a + b if a is not None and b is not None else None
        if t[0] == "call" and callee(t) in ("tuple", "list", "itertools.chain", "chain") and t[2]:
            parts = [self.colseq(a) for a in t[2]]
            if all(x is not None for x in parts):
                return [s for x in parts for s in x]
        if t[0] == "obj":
            o = self.it.objs[t[1]]
            if o.kind == "list" and isinstance(o.node, ast.Call) and len(o.init) == 1:
                return self.colseq(o.init[0])
            if o.kind == "list" and isinstance(o.node, ast.List) and o.init and all(x[0] == "star" for x in o.init) \
                    and not self.it._mutated(t):
                # [*left_cols, *right_cols]: a list display of starred column sequences, never changed afterwards
                out2: List[str] = []
                for x in o.init:
                    r = self.colseq(x[1])
                    if r is None:
                        return None
                    out2 += r
                return out2
        return None

    def rows_of(self, t: Term) -> Optional[str]:
        """'L' / 'R' if t is the row count of self / other."""
        for side, tab in (("L", self.S), ("R", self.O)):
            if t == ("call", ("name", "len"), (tab,), ()) or t == ("attr", tab, "_length"):
                return side
        return None

    # ---- linear forms ------------------------------------------------------------------
    def lin(self, t: Term) -> Optional[Lin]:
        if t[0] == "const" and isinstance(t[2], int) and not isinstance(t[2], bool):
            return {"1": t[2]} if t[2] else {}
        if t[0] == "call" and t[1] == ("name", "len") and len(t[2]) == 1:
            return self.len_lin(t[2][0])
        if t[0] == "bin" and t[1] in ("Add", "Sub"):
            return lin_add(self.lin(t[2]), self.lin(t[3]), 1 if t[1] == "Add" else -1)
        return None

    def len_lin(self, x: Term) -> Optional[Lin]:
        cs = self.colseq(x)
        if cs is not None:
            out: Lin = {}
            for s in cs:
                out = lin_add(out, NL if s == "L" else NR)
            return out
        bs = self.bufseq(x)
        if bs is not None:
            return lin_add(bs[2], bs[1], -1)
        if x[0] == "obj":
            o = self.it.objs[x[1]]
            if o.kind in ("listcomp", "genexp"):
                evs = [e for e in self.it.events if e.kind == "elem" and e.term == x]
                if len(evs) == 1:
                    lps = [L for L in evs[0].loops if L not in o.loops]
                    if len(lps) == 1 and evs[0].conds == o.conds:
                        return self.count(lps[0])
            if o.kind == "list" and isinstance(o.node, ast.List) and not self.it._mutated(x):
                return {"1": len(o.init)} if o.init else {}
        if x[0] == "tuple" and not any(e[0] == "star" for e in x[1]):
            return {"1": len(x[1])} if x[1] else {}
        return None

    def count(self, L: int) -> Optional[Lin]:
        lp = self.it.loops[L]
        if lp.range is not None:
            if lp.range[2] != const(1):
                return None
            return lin_add(self.lin(lp.range[1]), self.lin(lp.range[0]), -1)
        if lp.domain is not None:
            if lp.domain[0] == "tuple" and lp.iter is not None and callee(lp.iter) == "zip":
                out = None
                for i, d in enumerate(lp.domain[1]):
                    l = self.len_lin(d)
                    out = l if i == 0 else lin_min(out, l)
                return out
            return self.len_lin(lp.domain)
        if lp.iter is not None:
            return self.len_lin(lp.iter)
        return None

    # ---- result buffers ----------------------------------------------------------------
    def bufseq(self, x: Term) -> Optional[Tuple[str, Lin, Lin]]:
        """(kind buf|app, lo, hi): x is the sub-sequence [lo, hi) of the result buffers (or of their bound appends)."""
        if self.RD is None:
            return None
        if x == self.RD:
            return ("buf", ZERO, self.T if not self.RD_more else self.RD_first)
        for t_, lo_, hi_ in self.RD_more:
            if x == t_:
                return ("buf", lo_, hi_)
        if x[0] == "sub" and x[2][0] == "slice" and x[2][3] == NONE:
            b = self.bufseq(x[1])
            if b is None:
                return None
            kind, lo, hi = b
            a_, b_ = x[2][1], x[2][2]
            nlo = lo if a_ == NONE else lin_add(lo, self.lin(a_))
            nhi = hi if b_ == NONE else lin_add(lo, self.lin(b_))
            if nlo is None or nhi is None or any(v < 0 for v in nlo.values()) or any(v < 0 for v in nhi.values()):
                return None
            return (kind, nlo, nhi)
        if x[0] == "call" and x[1] in (("name", "tuple"), ("name", "list")) and len(x[2]) == 1:
            return self.bufseq(x[2][0])
        if x[0] == "obj":
            o = self.it.objs[x[1]]
            if o.kind == "list" and isinstance(o.node, ast.Call) and len(o.init) == 1:
                return self.bufseq(o.init[0])
            if o.kind in ("listcomp", "genexp"):
                evs = [e for e in self.it.events if e.kind == "elem" and e.term == x]
                if len(evs) != 1:
                    return None
                e = evs[0]
                lps = [L for L in e.loops if L not in o.loops]
                if len(lps) != 1 or e.conds != o.conds:
                    return None
                lp = self.it.loops[lps[0]]
                if lp.iter is None:
                    return None
                src = self.bufseq(lp.iter)
                if src is None:
                    return None
                v = e.value
                if v == ("elem", lp.iter, lp.id):
                    return src
                if v == ("attr", ("elem", lp.iter, lp.id), "append") and src[0] == "buf":
                    return ("app", src[1], src[2])
        return None

    def parse_index(self, i: Term) -> Tuple[Optional[Lin], Optional[int]]:
        """index term -> (linear offset, loop whose 0-based position is added) ; (None, None) if not of that form."""
        if i[0] == "idx":
            return ZERO, i[1]
        if i[0] == "bin" and i[1] == "Add":
            for a, b in ((i[2], i[3]), (i[3], i[2])):
                la = self.lin(a)
                if la is not None:
                    lb, L = self.parse_index(b)
                    if lb is not None:
                        return lin_add(la, lb), L
        l = self.lin(i)
        if l is not None:
            return l, None
        return None, None

    def bufelem(self, t: Term) -> Optional[Tuple[str, Optional[Lin], Optional[int]]]:
        """(kind, start, loop): t is the buffer (or its bound append) at absolute position start + position(loop)."""
        if t[0] == "attr" and t[2] == "append":
            b = self.bufelem(t[1])
            if b is not None and b[0] == "buf":
                return ("app", b[1], b[2])
            return None
        if t[0] == "elem":
            s = self.bufseq(t[1])
            if s is not None:
                return (s[0], s[1], t[2])
        if t[0] == "sub" and t[2][0] != "slice":
            s = self.bufseq(t[1])
            if s is not None:
                off, L = self.parse_index(t[2])
                if off is None:
                    return (s[0], None, None)
                return (s[0], lin_add(s[1], off), L)
        return None

    def _bound_name(self, value_node) -> Optional[str]:
        """the local name a statement `name = <value_node>` of this function binds"""
        for n in ast.walk(self.f.node):
            if isinstance(n, ast.Assign) and n.value is value_node and len(n.targets) == 1 and isinstance(n.targets[0], ast.Name):
                return n.targets[0].id
            if isinstance(n, ast.AnnAssign) and n.value is value_node and isinstance(n.target, ast.Name):
                return n.target.id
        return None

    # ------------------------------------------------------------------ model construction
    def _build(self) -> None:
        it = self.it
        S, O, p = self.S, self.O, self.p
        # pairs ---------------------------------------------------------------------------
        self.pairs: Optional[Term] = None
        for e in it.events:
            if e.kind == "call" and e.term[1][0] == "attr" and e.term[1][2] == "_validate_join_keys":
                if self.pairs is not None and self.pairs != e.term:
                    self._err("_validate_join_keys is called twice with different arguments")
                self.pairs = e.term
                self.pairs_ev = e
        if self.pairs is None:
            self._err("call to _validate_join_keys not found")
        # result buffers ------------------------------------------------------------------
        self.RD: Optional[Term] = None
        self.T: Optional[Lin] = None
        self.rebinds: List[Tuple[Event, str]] = []
        # further lists of empty result buffers created after the first one (left_data / right_data): laid out one after the other
        # in creation order - positions [0, n1), [n1, n1 + n2), ...
        self.RD_more: List[Tuple[Term, Lin, Lin]] = []
        self.RD_first: Optional[Lin] = None
        more_evs = []
        for e in it.events:
            if e.kind == "elem" and e.value[0] == "obj" and it.objs[e.value[1]].kind == "list" \
                    and isinstance(it.objs[e.value[1]].node, ast.List) and not it.objs[e.value[1]].init \
                    and it.objs[e.term[1]].kind == "listcomp":
                if self.RD is not None:
                    if e.term == self.RD:
                        continue
                    # the variable holding the filled buffers bound again to fresh empty ones: what was emitted so far is dropped
                    # (for the rules to report); any other second set of buffers is a shape this model does not know
                    t1, t2 = self._bound_name(it.objs[self.RD[1]].node), self._bound_name(it.objs[e.term[1]].node)
                    if t1 is not None and t1 == t2:
                        self.rebinds.append((e, t2))
                        continue
                    if t2 is not None and e.conds == self.RD_ev.conds and not any(e.term == m[0] for m in more_evs):
                        more_evs.append((e.term, e))
                        continue
                    self._err("more than one list of empty result buffers")
                self.RD, self.RD_ev = e.term, e
        if self.RD is None:
            self._err("column-major result buffers ([[] for _ in range(...)]) not found")
        rd_loops = [L for L in self.RD_ev.loops if L not in it.objs[self.RD[1]].loops]
        self.T = self.count(rd_loops[0]) if len(rd_loops) == 1 else None
        if more_evs:
            self.RD_first = self.T
            pos = self.T
            for t_, e_ in more_evs:
                ls_ = [L for L in e_.loops if L not in it.objs[t_[1]].loops]
                n_ = self.count(ls_[0]) if len(ls_) == 1 else None
                if pos is None or n_ is None:
                    self._err("result buffer lists of unknown size")
                self.RD_more.append((t_, pos, lin_add(pos, n_)))
                pos = lin_add(pos, n_)
            self.T = pos
        # index: the dict written under a key tuple (which side's keys / which row is for the rules to judge) ------------
        self.index: Optional[Term] = None
        self.index_loop: Optional[int] = None
        self.index_events: List[Event] = []
        cands_idx: List[Tuple[Term, str]] = []
        for e in it.events:
            cand = None
            if e.kind == "store" and e.term[0] == "sub" and e.term[1][0] == "obj" and it.objs[e.term[1][1]].kind in ("dict", "defaultdict") \
                    and self.key_of(e.term[2]) is not None:
                cand = (e.term[1], self.key_of(e.term[2])[0])
            if e.kind == "call" and e.term[1][0] == "attr" and e.term[1][2] == "setdefault" and e.term[1][1][0] == "obj" \
                    and len(e.term[2]) == 2 and self.key_of(e.term[2][0]) is not None \
                    and it.objs[e.term[1][1][1]].kind in ("dict", "defaultdict"):
                cand = (e.term[1][1], self.key_of(e.term[2][0])[0])
            if cand is not None and cand not in cands_idx:
                cands_idx.append(cand)
        dicts = {c[0] for c in cands_idx}
        if len(dicts) > 1:
            # several dicts keyed by join keys: the index is the one keyed by the RIGHT keys (a structure keyed by left keys is
            # not part of a hash join that emits in probe order - the buffer rules will say so)
            dicts = {c[0] for c in cands_idx if c[1] == "R"}
        if len(dicts) > 1:
            # several dicts keyed by the right keys: the index is the one whose entries START as a fresh list holding the current row
            # position (index[key] = [row]); a dict that merely records an existing bucket under its key (duplicates[key] = bucket)
            # is bookkeeping for the cardinality checks
            fresh = set()
            for e in it.events:
                if e.kind == "store" and e.term[0] == "sub" and e.term[1] in dicts and e.value is not None and e.value[0] == "obj" \
                        and it.objs[e.value[1]].kind == "list" and len(it.objs[e.value[1]].init) == 1 \
                        and it.objs[e.value[1]].init[0][0] in ("idx", "elem"):
                    fresh.add(e.term[1])
            if len(fresh) == 1:
                dicts = fresh
        if len(dicts) != 1:
            self._err(f"hash index not found ({len(dicts)} dicts keyed by tuple(col[row] for col in <keys>))")
        self.index = dicts.pop()
        for e in it.events:
            if self._touches_index_write(e):
                self.index_events.append(e)
        first = self.index_events[0]
        if not first.loops:
            self._err("the index is first written outside any loop")
        self.index_loop = first.loops[0]
        # probe lookups: consultations of the index outside the index loop ------------------------------------------------
        self.probe_loop: Optional[int] = None
        self.bucket: Optional[Term] = None
        self.bucket_ev = None
        cands = []
        for e in it.events:
            if e.kind == "call" and self.bucket_of(e.term) is not None and e.loops and e.loops[0] != self.index_loop:
                cands.append((e.loops[0], e.term))
        for lp in it.loops.values():
            if lp.iter is not None and lp.iter[0] == "sub" and self.bucket_of(lp.iter) is not None and lp.parents \
                    and lp.parents[0] != self.index_loop:
                cands.append((lp.parents[0], lp.iter))
        if not cands:
            # the index is consulted, but once per entry of ANOTHER dict (left rows grouped by key first): rows come out in the order
            # of each key's first occurrence - a definite order violation, not an unrecognised shape
            for e in it.events:
                looked = e.kind == "call" and e.term[1] == ("attr", self.index, "get") and e.term[2]
                if not looked or not e.loops or e.loops[0] == self.index_loop:
                    continue
                src = it.loops[e.loops[0]].iter
                base = src[1][1] if (src is not None and src[0] == "call" and src[1][0] == "attr" and src[1][2] in ("items", "keys", "values")) else src
                if base is not None and base[0] == "obj" and it.objs[base[1]].kind in ("dict", "defaultdict") and base != self.index:
                    raise JoinOrderViolation(
                        f"{self.f.qualname}: the index is probed once per entry of another dict (`for ... in {self.sh(src)[:40]}`, line "
                        f"{getattr(it.loops[e.loops[0]].node, 'lineno', 0)}), not once per left row in row order: all left rows of a key are "
                        f"emitted together at the position of the key's first occurrence - rows are not ordered by left row position",
                        it.loops[e.loops[0]].node)
            self._err("probe loop (a row loop that looks a key up in the index) not found")
        if len({c[0] for c in cands}) != 1 or len({c[1] for c in cands}) != 1:
            self._err(f"the index is probed in {len({c[0] for c in cands})} loops with {len({c[1] for c in cands})} different lookups")
        self.probe_loop, self.bucket = cands[0]
        # matched loops: loops over the bucket -----------------------------------------------------
        def over_bucket(t) -> bool:
            """the bucket itself, or `bucket or ()` / `bucket or []` (nothing to walk when the key has no bucket)"""
            if t == self.bucket:
                return True
            if t is not None and t[0] == "bool" and t[1] == "or" and len(t[2]) == 2 and t[2][0] == self.bucket:
                alt = t[2][1]
                return alt == ("tuple", ()) or (alt[0] == "obj" and it.objs[alt[1]].kind == "list" and not it.objs[alt[1]].init
                                                and not it._mutated(alt))
            return False
        self.matched_loops = [lp.id for lp in it.loops.values() if over_bucket(lp.iter) and self.probe_loop in lp.parents]
        self.bucket_wrapped = [lp for lp in it.loops.values()
                               if lp.iter is not None and not over_bucket(lp.iter) and self.probe_loop in lp.parents
                               and any(t == self.bucket for t in subterms(lp.iter))]
        # matched set and sweep (full join) -------------------------------------------------------
        self.sweep_loop: Optional[int] = None
        self.matched_set: Optional[Term] = None
        self._emissions: Optional[List[Emission]] = None
        ems = self.emissions()
        for em in ems:
            if em.context == "sweep" and em.row_loop is not None:
                if self.sweep_loop is not None and self.sweep_loop != em.row_loop:
                    self._err("two sweep loops")
                self.sweep_loop = em.row_loop

    def _touches_index_write(self, e: Event) -> bool:
        idx = self.index
        if e.kind == "store" and e.term[0] == "sub" and e.term[1] == idx:
            return True
        if e.kind == "del" and e.term[0] == "sub" and e.term[1] == idx:
            return True
        if e.kind == "call" and e.term[1][0] == "attr":
            recv, m = e.term[1][1], e.term[1][2]
            if recv == idx and m not in ("get", "items", "keys", "values", "__contains__", "__len__"):
                return True
            # a mutation of a bucket: receiver is index.get(K) / index[K] / index.setdefault(K, ..)
            if self._is_bucket_term(recv) and m in ("append", "insert", "sort", "reverse", "pop", "remove", "extend", "clear", "__setitem__"):
                return True
        return False

    def _is_bucket_term(self, t: Term) -> bool:
        if t[0] == "sub" and t[1] == self.index:
            return True
        if t[0] == "call" and t[1][0] == "attr" and t[1][1] == self.index and t[1][2] in ("get", "setdefault", "pop"):
            return True
        return False

    # ---- keys ------------------------------------------------------------------------------
    def keys_side(self, t: Term) -> Optional[str]:
        """'L'/'R' if t is the list of the first/second components of pairs."""
        if t[0] != "obj" or self.it.objs[t[1]].kind not in ("listcomp", "genexp"):
            if t[0] == "call" and t[1] in (("name", "tuple"), ("name", "list")) and len(t[2]) == 1:
                return self.keys_side(t[2][0])
            return None
        evs = [e for e in self.it.events if e.kind == "elem" and e.term == t]
        if len(evs) != 1:
            return None
        e = evs[0]
        o = self.it.objs[t[1]]
        lps = [L for L in e.loops if L not in o.loops]
        if len(lps) != 1 or e.conds != o.conds:
            return None
        lp = self.it.loops[lps[0]]
        if lp.iter != self.pairs:
            return None
        for i, side in ((0, "L"), (1, "R")):
            if e.value == ("sub", ("elem", self.pairs, lp.id), const(i)):
                return side
        return None

    def key_of(self, t: Term) -> Optional[Tuple[str, Term]]:
        """(side, row term) if t == tuple(col[row] for col in keys(side))."""
        if not (t[0] == "call" and t[1] == ("name", "tuple") and len(t[2]) == 1 and not t[3]):
            return None
        g = t[2][0]
        if g[0] != "obj" or self.it.objs[g[1]].kind not in ("genexp", "listcomp"):
            return None
        evs = [e for e in self.it.events if e.kind == "elem" and e.term == g]
        if len(evs) != 1:
            return None
        e = evs[0]
        o = self.it.objs[g[1]]
        lps = [L for L in e.loops if L not in o.loops]
        if len(lps) != 1 or e.conds != o.conds:
            return None
        lp = self.it.loops[lps[0]]
        side = self.keys_side(lp.iter) if lp.iter is not None else None
        if side is None:
            return None
        v = e.value
        if v[0] == "sub" and v[1] == ("elem", lp.iter, lp.id):
            return (side, v[2])
        return None

    def bucket_of(self, t: Term) -> Optional[Tuple[str, Term]]:
        """(side of the key, row) if t looks the key up in the index: index.get(K[, default]) / index[K]."""
        if self.index is None:
            return None
        if t[0] == "call" and t[1] == ("attr", self.index, "get") and 1 <= len(t[2]) <= 2:
            return self.key_of(t[2][0])
        if t[0] == "sub" and t[1] == self.index:
            return self.key_of(t[2])
        return None

    # ---- rows ------------------------------------------------------------------------------
    def row_kind(self, r: Term) -> Tuple[str, Optional[int], str]:
        """(LEFT|RIGHT|?, loop, how)"""
        if r[0] == "idx":
            lp = self.it.loops[r[1]]
            if lp.range is not None and lp.range[0] == const(0) and lp.range[2] == const(1):
                side = self.rows_of(lp.range[1])
                if side:
                    return ("LEFT" if side == "L" else "RIGHT", lp.id, "scan")
        if r[0] == "elem" and self.bucket is not None and (r[1] == self.bucket or (
                r[2] in self.it.loops and r[2] in getattr(self, "matched_loops", ()) and r[1] == self.it.loops[r[2]].iter)):
            return ("RIGHT", r[2], "bucket")          # (also an element of `bucket or ()`: the loop is a matched loop)
        return ("?", None, "")

    # ---- emissions ---------------------------------------------------------------------------
    def emissions(self) -> List[Emission]:
        if self._emissions is not None:
            return self._emissions
        it = self.it
        out: List[Emission] = []
        for e in it.events:
            if e.kind != "call" or self.infeasible(e):
                continue
            b = self.bufelem(e.term[1])
            if b is None:
                # any other method called on a buffer is outside the discipline
                f = e.term[1]
                if f[0] == "attr" and f[2] != "append":
                    bb = self.bufelem(f[1])
                    if bb is not None and bb[0] == "buf" and f[2] not in ("__len__",):
                        out.append(Emission(e, "?", None, None, None, "?", f"buffer method .{f[2]}()", None, "?", (), False))
                continue
            kind, start, L = b
            if kind != "app":
                continue
            if len(e.term[2]) != 1 or e.term[3]:
                out.append(Emission(e, "?", start, None, L, "?", "append with != 1 argument", None, "?", (), False))
                continue
            cnt = self.count(L) if L is not None else None
            block = "?"
            if start is not None and cnt is not None and L is not None and L in e.loops:
                if start == ZERO and cnt == NL:
                    block = "LEFT"
                elif start == NL and cnt == NR:
                    block = "RIGHT"
            v = e.term[2][0]
            vk, vd, row_loop_of_value = "?", self.sh(v), None
            if v == NONE:
                vk = "NONE"
            elif v[0] == "sub" and v[2][0] != "slice":
                col, row = v[1], v[2]
                cside, cl = None, None
                if col[0] == "elem":
                    cs = self.colseq(col[1])
                    if cs is not None and len(cs) == 1:
                        cside, cl = cs[0], col[2]
                rk = self.row_kind(row)
                if cside and cl == L and rk[0] != "?" and (cside == "L") == (rk[0] == "LEFT"):
                    vk = f"{rk[0]}-ROW"
                    row_loop_of_value = rk[1]
                    vd = f"column {cside}[k] at {rk[0].lower()} row ({rk[2]})"
                else:
                    vd = f"column side {cside} (loop @{cl} vs buffer loop @{L}), row {rk[0]} {rk[2]}: {self.sh(v)}"
            context, row_loop, extra = self._context(e, row_loop_of_value)
            depth_ok = row_loop is not None and L is not None and e.loops and e.loops[-1] == L \
                and len(e.loops) >= 2 and e.loops[-2] == row_loop
            out.append(Emission(e, block, start, cnt, L, vk, vd, row_loop, context, extra, bool(depth_ok)))
        self._emissions = out
        return out

    def _context(self, e: Event, value_row_loop: Optional[int]) -> Tuple[str, Optional[int], Tuple[Cond, ...]]:
        it = self.it
        loops = e.loops
        ml = [L for L in loops if L in self.matched_loops]
        if ml:
            row_loop = ml[0]
            base = len(it.loops[row_loop].conds)
            return "matched", row_loop, self.meaningful(e.conds[base:])
        if self.probe_loop in loops:
            inside = self.meaningful(e.conds[len(it.loops[self.probe_loop].conds):])
            guard = [c for c in inside if self._is_bucket_empty_test(c)]
            if guard:
                return "unmatched-left", self.probe_loop, tuple(c for c in inside if c not in guard)
            return "?", self.probe_loop, tuple(inside)
        # a scan over the right rows that is not the index loop
        for L in loops:
            lp = it.loops[L]
            if L != self.index_loop and lp.range is not None and lp.range[0] == const(0) and lp.range[2] == const(1) \
                    and self.rows_of(lp.range[1]) == "R" and not lp.parents:
                return "sweep", L, self.meaningful(e.conds[len(lp.conds):])
        return "?", None, self.meaningful(e.conds)

    def _is_bucket_empty_test(self, c: Cond) -> bool:
        """Is c the statement `the probe key has no (non-empty) bucket`?"""
        t, pol = c
        if t == self.bucket and not pol:
            return True
        if t == ("cmp", "Is", self.bucket, NONE) and pol:
            return True
        return False

    def is_bucket_nonempty_test(self, c: Cond) -> bool:
        t, pol = c
        if t == self.bucket and pol:
            return True
        if t == ("cmp", "Is", self.bucket, NONE) and not pol:
            return True
        return False

    # ---- conveniences for the rules -----------------------------------------------------------
    def loop_node(self, L: Optional[int]) -> ast.AST:
        return self.it.loops[L].node if L is not None else self.f.node

    def conds_inside(self, e: Event, L: int) -> Tuple[Cond, ...]:
        return self.meaningful(e.conds[len(self.it.loops[L].conds):])

    def meaningful(self, conds) -> Tuple[Cond, ...]:
        """Drop the literals that only say `no raise happened` (negated raise guards) or `<a row index> is not None`."""
        return tuple(c for c in conds if c not in self.it.no_raise_lits and not self._row_none_test(c, False))

    def _row_none_test(self, c: Cond, truth: bool) -> bool:
        """c == (<row index term> is None) with polarity `truth`.  Row indices (loop counters, bucket elements) are ints."""
        t, pol = c
        if t[0] == "cmp" and t[1] == "Is" and t[3] == NONE and pol == truth:
            r = t[2]
            return r[0] == "idx" or (r[0] == "elem" and self.bucket is not None and r[1] == self.bucket)
        return False

    def infeasible(self, e: Event) -> bool:
        """An event on a path that requires a row index to be None."""
        return any(self._row_none_test(c, True) for c in e.conds)

    def events_in(self, L: int) -> List[Event]:
        return [e for e in self.it.events if L in e.loops]

"""Three-valued evaluation of symx condition terms under an assumption about an input.

`tv(c, atom)` evaluates the boolean structure - and / or (short-circuit), not, conditional expressions (the shape a predicate
helper with guard clauses takes once it is evaluated in line), bool(...), constants - and asks `atom(c)` (True / False / None) for
everything else.  None means 'not determined by the assumption'."""
from __future__ import annotations

from typing import Callable, Optional


def tv(c, atom: Callable[[tuple], Optional[bool]], depth: int = 0) -> Optional[bool]:
    if depth > 40 or not isinstance(c, tuple) or not c:
        return None
    k = c[0]
    if k == "const":
        return bool(c[2]) if isinstance(c[2], (bool, int, str, type(None))) else None
    if k == "bool":
        rs = []
        for x in c[2]:
            r = tv(x, atom, depth + 1)
            rs.append(r)
            if (c[1] == "and" and r is False) or (c[1] == "or" and r is True):
                break                      # (short circuit: what follows is not evaluated)
        if c[1] == "and":
            return False if False in rs else (None if None in rs else True)
        return True if True in rs else (None if None in rs else False)
    if k == "un" and c[1] == "Not":
        r = tv(c[2], atom, depth + 1)
        return None if r is None else not r
    if k == "ifexp":
        r = tv(c[1], atom, depth + 1)
        if r is None:
            a, b = tv(c[2], atom, depth + 1), tv(c[3], atom, depth + 1)
            return a if a == b else None
        return tv(c[2] if r else c[3], atom, depth + 1)
    if k == "call" and c[1] == ("name", "bool") and len(c[2]) == 1 and not c[3]:
        return tv(c[2][0], atom, depth + 1)
    return atom(c)

#!/usr/bin/env python3
"""Robustness twin generator: writes a copy of /repo/src/serif in which every function-local variable is renamed
(suffix _rn), which preserves behaviour exactly.  usage: rename_locals.py <dst_root> [suffix]
The checks must stay silent on the result (`./sscan all --repo <dst_root>`)."""
import ast, os, sys


def local_names(fn):
    params = set()
    nested_defs = set()
    bound = set()
    declared = set()
    for n in ast.walk(fn):
        if isinstance(n, (ast.FunctionDef, ast.AsyncFunctionDef, ast.Lambda)):
            a = n.args
            for x in a.posonlyargs + a.args + a.kwonlyargs:
                params.add(x.arg)
            if a.vararg:
                params.add(a.vararg.arg)
            if a.kwarg:
                params.add(a.kwarg.arg)
            if n is not fn and not isinstance(n, ast.Lambda):
                nested_defs.add(n.name)
        elif isinstance(n, (ast.Global, ast.Nonlocal)):
            declared |= set(n.names)
        elif isinstance(n, ast.Name) and isinstance(n.ctx, (ast.Store, ast.Del)):
            bound.add(n.id)
        elif isinstance(n, ast.ExceptHandler) and n.name:
            params.add(n.name)
        elif isinstance(n, (ast.Import, ast.ImportFrom)):
            for al in n.names:
                params.add((al.asname or al.name).split(".")[0])
    return bound - params - nested_defs - declared


class Ren(ast.NodeTransformer):
    def __init__(self, names, suffix):
        self.names, self.suffix = names, suffix

    def visit_Name(self, n):
        if n.id in self.names:
            n.id = n.id + self.suffix
        return n


def main():
    dst = sys.argv[1]
    suffix = sys.argv[2] if len(sys.argv) > 2 else "_rn"
    os.makedirs(os.path.join(dst, "src", "serif"), exist_ok=True)
    total = 0
    for fn in sorted(os.listdir("/repo/src/serif")):
        if not fn.endswith(".py"):
            continue
        tree = ast.parse(open("/repo/src/serif/" + fn).read())
        for node in ast.walk(tree):
            body = getattr(node, "body", None)
            if isinstance(node, (ast.Module, ast.ClassDef)) and isinstance(body, list):
                for st in body:
                    if isinstance(st, (ast.FunctionDef, ast.AsyncFunctionDef)):
                        names = local_names(st)
                        total += len(names)
                        Ren(names, suffix).visit(st)
        open(os.path.join(dst, "src", "serif", fn), "w").write(ast.unparse(tree) + "\n")
    print(f"renamed {total} locals into {dst}")


if __name__ == "__main__":
    main()

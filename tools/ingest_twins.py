#!/usr/bin/env python3
"""Confirm behaviour-preserving refactorings produced by sub-agents (given only /repo, nothing from /verif) and keep
them as the silent-twin regression set /verif/twins/<name>/ (patch.diff, notes.md, meta.json).

usage: ingest_twins.py RFB RFC ...     (worktrees /tmp/wt/<ID>, outputs /tmp/wt/<ID>/_out/<k>/)
A patch is kept only if it applies to the clean worktree and the unedited suite reports 490 passed with it.
"""
import json, os, re, shutil, subprocess, sys

PY = "/venv/bin/python"


def sh(cmd, cwd, env=None):
    e = dict(os.environ); e.update(env or {})
    return subprocess.run(cmd, cwd=cwd, env=e, shell=isinstance(cmd, str), capture_output=True, text=True, timeout=1800)


def main():
    for wid in sys.argv[1:]:
        wt = f"/tmp/wt/{wid}"
        env = {"PYTHONPATH": f"{wt}/src", "PYTHONDONTWRITEBYTECODE": "1"}
        for k in sorted(os.listdir(f"{wt}/_out")):
            d = f"{wt}/_out/{k}"
            patch = f"{d}/patch.diff"
            if not os.path.exists(patch):
                continue
            sh("git checkout -q -- .", wt)
            a = sh(["git", "apply", patch], wt)
            if a.returncode:
                print(f"{wid}-{k}: does not apply: {a.stderr[:200]}"); continue
            files = sh("git diff --name-only", wt).stdout.split()
            suite = sh([PY, "-m", "pytest", "-q", "-p", "no:cacheprovider", "-n", "8"], wt, env)
            tail = suite.stdout.strip().splitlines()[-1] if suite.stdout.strip() else ""
            sh("git checkout -q -- .", wt)
            ok = bool(re.search(r"\b490 passed", tail)) and "failed" not in tail
            print(f"{wid}-{k}: suite='{tail}' files={files} -> {'KEEP' if ok else 'REJECT'}")
            if not ok:
                continue
            dst = f"/verif/twins/{wid}-{k}"
            os.makedirs(dst, exist_ok=True)
            shutil.copy(patch, f"{dst}/patch.diff")
            if os.path.exists(f"{d}/notes.md"):
                shutil.copy(f"{d}/notes.md", f"{dst}/notes.md")
            json.dump({"kind": "behaviour-preserving refactoring (every property still holds)",
                       "origin": "fresh sub-agent given only a scratch worktree of /repo (nothing from /verif)",
                       "base_commit": sh("git rev-parse HEAD", wt).stdout.strip(), "files_touched": files,
                       "suite_with_change": tail, "expected": "all 20 checks exit 0",
                       "violation_in": [], "analysis_error_in": []}, open(f"{dst}/meta.json", "w"), indent=1)


if __name__ == "__main__":
    main()

#!/usr/bin/env python3
"""Run every registered check against every seeded change (applied to a scratch copy of /repo/src, removed afterwards)
and record which checks report a VIOLATION (exit 1) / ANALYSIS-ERROR (exit 2).  Updates seeded/<name>/meta.json
("detected_by", "analysis_error_in") and prints the matrix.  Evidence of these runs goes to a scratch directory."""
import json, os, shutil, subprocess, sys, tempfile
from concurrent.futures import ThreadPoolExecutor

V = "/verif"
PROPS = [f"C{i:02d}" for i in range(1, 21)]
PROPS_ENV = os.environ.get("PROPS")
if PROPS_ENV:
    PROPS = PROPS_ENV.split(",")
PY = "/venv/bin/python" if os.path.exists("/venv/bin/python") else "python3"


def run_one(name):
    tmp = tempfile.mkdtemp(prefix="seedmx-")
    try:
        shutil.copytree("/repo/src", os.path.join(tmp, "src"), ignore=shutil.ignore_patterns("__pycache__"))
        r = subprocess.run(["patch", "-p1", "-s", "-F0", "--no-backup-if-mismatch", "-d", tmp, "-i", f"{V}/seeded/{name}/patch.diff"],
                           capture_output=True, text=True)
        if r.returncode != 0:
            return name, None, None, "patch failed"
        env = dict(os.environ, SERIFSCAN_EVIDENCE_DIR=os.path.join(tmp, "ev"))
        hit, err = [], []
        for p in PROPS:
            rr = subprocess.run([PY, "-B", "-m", "serifscan", "check", p, "--repo", tmp], cwd=V, env=env, capture_output=True, text=True)
            if rr.returncode == 1:
                hit.append(p)
            elif rr.returncode == 2:
                err.append(p)
        return name, hit, err, ""
    finally:
        shutil.rmtree(tmp, ignore_errors=True)


def main():
    names = sorted(n for n in os.listdir(f"{V}/seeded") if os.path.exists(f"{V}/seeded/{n}/meta.json"))
    if len(sys.argv) > 1:
        names = [n for n in names if any(n.startswith(a) for a in sys.argv[1:])]
    with ThreadPoolExecutor(max_workers=16) as ex:
        res = list(ex.map(run_one, names))
    missed = []
    for name, hit, err, why in res:
        mp = f"{V}/seeded/{name}/meta.json"
        m = json.load(open(mp))
        if hit is None:
            print(f"{name:8s} {why}")
            continue
        m["detected_by"] = hit
        m["analysis_error_in"] = err
        own = m["property"]
        m["detected_by_own_property_check"] = own in hit
        if not PROPS_ENV:
            json.dump(m, open(mp, "w"), indent=1)
        flag = "OK " if own in hit else ("err" if own in err else "MISS")
        if own not in hit:
            missed.append(name)
        print(f"{name:8s} {flag} violation: {','.join(hit) or '-':40s} analysis-error: {','.join(err) or '-'}")
    print(f"{len(res) - len(missed)}/{len(res)} seeded changes detected by their own property's check; not detected: {missed}")


if __name__ == "__main__":
    main()

#!/usr/bin/env python3
"""Regenerates /verif/MANIFEST.json from the table below (single source of truth).

A property is claimed iff serifscan/rules/<id>.py exists AND it has an entry in CLAIMS;
every other property is listed under not_applicable with its reason.
"""
import json
import os

HERE = os.path.dirname(os.path.dirname(os.path.abspath(__file__)))

CLAIMS = {
    "C11": dict(
        text="Decides the whole 3x5x2x2 decision table: the option sets selecting the validation, the right- and the "
             "left-uniqueness checks are extracted from each join variant's syntax tree (flags identified by the raise "
             "they guard, not by name), all 60 cells are generated and compared with the statement (exhaustive), and "
             "CFG/dataflow rules show the flags do what the table assumes (validation dominates everything, duplicates "
             "recorded for ALL right rows / every probed left key before the matched/unmatched split, SerifValueError) "
             "and influence nothing else (taint closure of expect/flags reaches only tests, bookkeeping and messages).",
        note="Trusted: the engine's reading of Python membership tests and control dependence; C09's facts that keys "
             "and buckets are what they seem. Run-time behaviour of dict/set equality is not modelled.",
        technique="term-domain abstract interpretation -> raise events with literal expect sets in their path conditions; exhaustive decision-table comparison; influence = term/condition dependence on expect",
        design="2/C11"),
    "C09": dict(
        text="Decides structural necessary conditions of a correct hash join, extracted by dataflow roles (never by "
             "spelling) from inner_join and compared across the three variants: key pairing/projection/probing symmetry, "
             "by-name keys resolved through exact stored-name lookup, index loop over all right rows and probe loop over all "
             "left rows with ascending buckets emitted in stored order (left-major/right-minor), typed buffer discipline "
             "(LEFT buffer <- left-row value, RIGHT <- right-row value, once per column per emitted row), skip policy, "
             "wrapping under source names with inferred dtype, no set iteration / hash()/id() as data, and interprocedural "
             "purity (no content write on self/other). The relational equation itself (which pairs are key-equal) is a "
             "run-time value property and is NOT decided.",
        note="A structural necessary condition is decided, not the behaviour. Trusted: role extraction (fails closed with "
             "ANALYSIS-ERROR when the join is refactored beyond recognition), dict/tuple equality semantics at run time.",
        technique="flow-sensitive abstract interpretation over a term domain (symx: events + path conditions, helpers inlined) -> semantic join model with linear buffer positions; typed-emission discipline; effect summaries; sibling fact comparison",
        design="2/C09"),
    "C10": dict(
        text="Same extraction on join and full_join plus completeness structure: no continue/break/return in the probe "
             "loop and an `if bucket: ... else: ...` split so every left row emits at its position; unmatched rows padded "
             "with None once per right column; full_join records the right row of every emitted pair inside the emission "
             "loop and sweeps range(len(other)) afterwards emitting exactly the unrecorded rows (None per left column), "
             "which gives right-table order; matched-pair block fact-equal to inner_join's (inner ⊆ left ⊆ full by "
             "construction). No rejection of _validate_join_keys depends on more than spec form, lengths and key KIND (an all-None key column on either side is admitted - shared with C09.a). Value-level multiset symmetry is NOT decided.",
        note="A structural necessary condition is decided, not the behaviour (see C09).",
        technique="term-domain abstract interpretation -> semantic join model; per-context emission discipline (matched / unmatched-left / sweep); sibling fact comparison",
        design="2/C10"),
    "C01": dict(
        text="Decides four structural invariants that every statement of the package must preserve and that together imply "
             "isolation for all histories: (a) storage is only ever assigned values of tuple provenance and never written "
             "in place (all stores, package-wide scan for in-place writes through _underlying or local aliases); (b) only four "
             "audited functions store _underlying and every Vector that becomes a Table column is FRESH on every reaching "
             "definition; (c) an interprocedural effect analysis (freshness/ownership provenance, summaries to fixpoint "
             "over ~190 functions) shows every non-mutator has an empty content-write summary on every parameter and every "
             "mutator/constructor writes only its receiver; (d) the alias check dominates every write event of "
             "Vector.__setitem__ and _promote is reached only from there or on a fresh copy.",
        note="Trusted: the provenance lattice and builtin-mutator table of the effect engine; flow-insensitive inside a "
             "function (sound, may over-report); mutable ELEMENTS (lists inside object vectors) are out of scope; no "
             "monkey-patching, no setattr with computed field names (verified, else exit 2).",
        technique="interprocedural effect/ownership analysis + reaching definitions + CFG dominance + who-may-store rule",
        design="2/C01"),
    "C15": dict(
        text="Discharges the quantifier over GC/allocation histories by an invariant (every live registered vector is listed "
             "under id(its current storage) and nowhere else) and decides that every statement preserves it: each storage "
             "swap is bracketed on all paths by unregister(obj, id(storage current at the swap)) - path-sensitive: a swap on "
             "a def-use path of the captured id makes it stale - and register(obj, id(the stored tuple)); no __new__ returns "
             "an initialised object whose __init__ re-runs unguarded; registration happens once, last; check_writable refuses "
             "iff >= 2 LIVE referents after pruning; only four functions call the tracker; copy() builds fresh storage.",
        note="Trusted: CPython keeps a tuple alive while a live vector references it (identity cannot be recycled); weakref "
             "semantics. Empty vectors / `v << []` really share storage, so refusal there is consistent with the statement.",
        technique="CFG pairing (dominance/post-dominance) + path-sensitive def-use staleness + term-domain abstract interpretation of the tracker (register / unregister events and conditions)",
        design="2/C15"),
    "C16": dict(
        text="Cache-coherence by structure: every Vector storage swap is followed on all paths by invalidation of the same "
             "object's memo (or compensated at every call site / fresh receiver); Table.fingerprint resolves to a definition "
             "that neither reads nor writes a memo (columns are live views); the only computed store to _fp is the full "
             "recomputation under `_fp is None`; the fold is order-sensitive over all elements and reads nothing but the "
             "elements (no id(), names, dtypes, time); fingerprint code writes cache fields only. 'Notices every change', "
             "structurally: every value _hash_element returns is a distinct sentinel or a chain of 64-bit BIJECTIONS (mask, "
             "xor-shift, odd multiplication, xor constant - judged step by step on the return terms, helper mixers in line) "
             "with a xor-shift and a multiplication over hash() / a child fingerprint / a nested fold, and nested folds start "
             "from len() and a per-type tag: no collision FAMILY by construction (-5 ~ 2**61-6, [a,b] ~ [a+d,b-d*B], a 2x2 "
             "table ~ its transpose, 5 ~ (5,) ~ [5] were all real on the pinned tree; fixed 17c195f). No hash(x) is reachable for a float, complex or other-typed (Decimal) NaN: the path conditions of every return are evaluated per NaN kind. An element is classified by type, never by hasattr (an object with a method named fingerprint is not a nested vector).",
        note="Trusted: hash() of element values; that a 61-bit fold has SOME collisions is unavoidable and not decided "
             "(the statement excludes hash-equal pairs; C16.f excludes the constructible families).",
        technique="CFG must-pass-through (store -> invalidation) + MRO resolution + dataflow slice of the fold + effect summaries + "
                  "term-domain abstract interpretation of the element hash with a bijection calculus over 64-bit steps",
        design="2/C16"),
    "C04": dict(
        text="Decided completely up to the trusted base: the promotion automaton is EXTRACTED from the source by a finite "
             "abstract evaluator that runs the repo's own ASTs of infer_dtype (pre-loop / loop body / post-loop), "
             "DataType.promote_with and infer_kind over 20 type tags (None, the 8 builtin kinds, list/dict/tuple, two "
             "unrelated user classes, six strict subclasses). On the whole table: exchange and idempotence of the loop's "
             "transition function at every reachable state up to observational equivalence (=> order and length "
             "independence of EVERY finite sequence by induction), equality with the statement's join for all 16384 "
             "type sets of the core domain and all small sets of the extended one, and for promote_with: equals the binary "
             "join, never narrows, keeps nullability, idempotent, commutes, for every (dtype, value type) pair. A dtype whose kind is a SUBCLASS of a ladder kind (Vector(xs, dtype=MyFloat)) is never promoted below the builtin kind it stands for (abstract evaluation over sub_int / sub_float / sub_date / sub_datetime kinds). No function of typing.py writes a module-level container (the result of a promotion cannot depend on earlier calls); result sites are also followed into later helpers of the result functions, data and dtype alternatives chosen by one condition are judged branch by branch.",
        note="Trusted: the evaluator's semantics of is/==/in/isinstance/issubclass/type() on type tags and of the statement "
             "subset (anything outside the subset is exit 2, never a pass). Exhaustive over the finite tag domain.",
        technique="finite abstract interpretation of the source (automaton extraction) + exhaustive law checking with partition refinement",
        design="2/C04"),
    "C03": dict(
        text="A typing discipline over ALL construction sites of the package (208 sites; 76 with an explicit dtype or via "
             "copy): each (data provenance, dtype provenance) pair - computed by reaching definitions - must be admissible: "
             "computed/concatenated/buffered values may never carry an operand's dtype, a constant bool dtype needs "
             "syntactically boolean elements, non-nullable constants need elements that cannot be None, with_nullable(False) "
             "needs the not-None filter, copy() callers must pass the receiver's own elements, cast/fillna/new idioms are "
             "verified by shape. Plus exact abstract evaluation of Vector.__setitem__'s validation loop over every (vector "
             "dtype, running target, value type) cell (accept/widen/reject, no early exit, no write before the end, target "
             "applied before the store), of _promote/_can_promote, of validate_scalar (never accepts a non-member), and of "
             "the inference automaton (the inferred dtype admits every type that may have been seen).",
        note="Trusted: provenance recognisers (unclassifiable site => exit 2, never pass); evaluator semantics on type tags; "
             "values produced by user callables are typed by inference at the site (truthful by construction).",
        technique="construction-site provenance typing (reaching definitions) + finite abstract interpretation of the assignment/validation code",
        design="2/C03"),
    "C02": dict(
        text="Decides that every site which can break 'all columns have len == table._length' preserves it: the store of the "
             "column tuple at construction is dominated by a raising guard over ALL incoming columns; every column "
             "replacement and the dict form of >> are dominated by a raising len(value) != self._length guard (conjoined at "
             "most with 'has columns'); _length is stored only at construction and returned by __len__; in-place writes "
             "assign single positions of list(old storage) and promotion rebuilds from all elements; row selections map one "
             "key over all columns; Row snapshots the table's current column tuples unfiltered and every accessor indexes "
             "them with the row index; >>, <<, .T have the expected shape. Cell equality as values is not decided. For a str / bytes operand Vector.__lshift__ appends one cell on every reachable path, and table << x / x << table reach no result for a string or a mapping (three-valued evaluation per kind of operand). >> adds a mapping's named columns from either side; table << generator materialises; a Row's / Table's shape takes further dimensions from a cell only by its TYPE. What a mapping gives for ONE new column is a sequence of cells (no Vector(values) is reachable for a str / Mapping value); row[name] reads the FIRST column of that stored name, as table[name] does (a scan, or a first-wins dict).",
        note="A structural necessary condition is decided, not the run-time values.",
        technique="term-domain abstract interpretation (length guards as path conditions at every column store, row-view terms) + CFG dominance + who-may-store",
        design="2/C02"),
    "C07": dict(
        text="Comparison kernels (8 construction sites incl. the date-specific ones) build constant non-nullable bool vectors "
             "from `False if <operand is None> else bool(op(x, y))` paired by zip(self, other, strict=True) in written order, "
             "all 12 dunders dispatch the operator of their name; v[int] and v[slice] delegate to tuple indexing and nothing "
             "on the way to the constructor selects by truth value (R-FALSY on None-default data parameters); masks keep the "
             "element where the mask element is true after a length guard; index lists gather in key order; every raise of "
             "the indexing code is reachable and every FEASIBLE path (flag-sensitive) through one iteration of the multi-name "
             "loop appends or raises; row selections map the same key over all columns; by-name lookup is exact-name-first; the "
             "comparison forms of the single-name and the multi-name branch (column / position / name abstracted) are the same set; "
             "table masks are length-checked by a raise in their own branch; Table comparisons pair column-wise only with a 2-D "
             "operand and keep a None entry's row False. A table without rows compared with a sequence keeps the table form; the empty list certainly reaches no refusal (vector of length 0 and 3, table of length 0: three-valued evaluation of every raise's path condition under key = []). The same evaluation for the untyped empty vector Vector([]) and for tables with rows: what every column accepts as the empty selection the table accepts too.",
        note="Slice arithmetic (typeutils.slice_length) is numeric and not decided; value equality with list slicing is "
             "delegated to tuple.__getitem__.",
        technique="construction-site matchers + CFG reachability + flag-sensitive must-pass-through + R-FALSY lint + term-domain abstract interpretation of the multi-name selection (search-idiom terms)",
        design="2/C07"),
    "C05": dict(
        text="'Exactly what Python computes' is obtained by delegation, and the delegation is decided to be wired correctly for "
             "every operator and operand form: 30+ dunders dispatch the operator/_reverse_ helper of their own name (helpers "
             "return `other OP self-element`; only * may reuse the forward form), the three kernel comprehensions compute "
             "op_func(x, y) with x from self and y from other over zip(strict=True) after a raising length comparison and "
             "nothing is returned for a sequence operand before that comparison, reflected addition puts the other operand "
             "on the left, table arithmetic maps over exactly self.cols() / pairs columns after a width check, all 65 "
             "_String/_Date wrappers apply the method of their own name with the caller's arguments and keep None, "
             "MethodProxy/__getattr__ look the attribute up on the ELEMENT, and every self./super(). call resolves. Table.bit_lshift / bit_rshift route column by column like the operators; a date comparison with the elements of a <datetime> vector widens BOTH operands; dates + days recognises a vector of day counts by its values (three-valued evaluation under a 1-D vector not labelled int whose elements are ints).",
        note="Numeric equality of results is delegated to operator.* and not decided; dtype of results is C03/C04.",
        technique="dispatch-table and template matchers over the AST + CFG guard analysis + MRO call resolution",
        design="2/C05"),
    "C08": dict(
        text="Atomicity over every failure point is decided on the CFG: in Vector.__setitem__ nothing that may raise (explicit "
             "raise, consumption of key/value, validation, any unaudited call) is reachable from any write event on self "
             "(stores, calls whose effect summary writes self, tracker calls); in rename_columns no raise is reachable from a "
             "name store. Key dispatch covers the six key forms and ends in SerifTypeError, every index is normalised and "
             "range-checked before it is recorded; name/orientation are never stored; the accept/widen/reject table is "
             "evaluated exactly per (dtype, running target, value type) by abstract interpretation of the validation loop "
             "(shared with C03); Table.__setitem__ resolves columns first and only delegates to column writes; with several target "
             "columns the whole assignment is REHEARSED on Table(<copies of the target columns>) with the same row spec and value "
             "before the first store (all-or-nothing), Vector keys / values are snapshotted first, an untyped empty vector key "
             "reaches no raise (the final raise's path condition is evaluated for that key), Row.__setitem__ only raises. The value of a table assignment is judged per KIND (vector, list, tuple, one-shot iterator): the sequence written item by item holds copies of its vectors; a whole-value store is feasible for a vector and for any non-list sequence; every item of a list of target columns becomes a target or raises (CFG must-pass); the empty list key reaches no refusal on a vector of 3 (three-valued evaluation). A one-shot iterator value never reaches len(); a mapping value reaches no cell store; a number whose class is iterable (IntFlag) is one cell; several target columns take any sequence of columns (evaluated per kind of value and per assumed number of targets). Sibling agreement of every one-cell-or-sequence test in the package (numbers and enum members are exempt like text); the items of a list value that are one-shot iterators are materialised with the snapshot (comprehension or append loop, also inside a helper). Attribute assignment of a column reaches no column replacement for a str / Mapping / IntFlag value; the branches of _promote convert every element (shared with C03.b).",
        note="Equality with list assignment as values (range/slice arithmetic, typeutils.slice_length) is numeric and not decided.",
        technique="CFG reachability between mutation events and may-raise events + effect summaries + finite abstract interpretation",
        design="2/C08"),
    "C06": dict(
        text="None handling is decided per kernel and per reduction from dataflow facts: all arithmetic kernels (3 comprehensions, "
             "3 reflected-add loops, 2 date-add, unary) map a None operand to None and all 8 comparison kernels to False; for the "
             "7 Vector reductions and the 12 group aggregators a fact tuple (filter, reducer, empty result, minimum count, divisor) "
             "is extracted with locals inlined and comprehension variables alpha-renamed and compared with the textbook spec and "
             "across the siblings aggregate / window / Vector; isna, dropna, fillna use the one predicate `x is None`.",
        note="Numeric agreement of the builtin reducers with the None-free list is delegated, not decided.",
        technique="normal-form fact extraction of reducers (inlining + alpha-renaming) vs spec table + term-domain abstract interpretation of aggregate/window (which reducer closure produces each group's value from which gathered values) + sibling comparison",
        design="2/C06"),
    "C12": dict(
        text="aggregate's structure is extracted by dataflow roles and decided: partition loop over range(len(self)) with keys = "
             "the row's values of all key columns (None not special-cased), first-sight [row] / append(row) buckets, groups = "
             "insertion-ordered items never sorted or passed through a set; key columns first; per built-in aggregate the wiring "
             "parameter <-> loop <-> function facts <-> suffix and facts == textbook spec; every aggregate function (and apply, "
             "None included) is called once per group on the values gathered in row order; Vector reductions are fact-equal; "
             "length guards, exact-name resolution of columns given by name, determinism, purity. A key keeps its own stored name (first occurrence) and all key names are reserved before a synthetic one is chosen; _resolve_column refuses a two-dimensional vector as ONE column.",
        note="Numeric results and equality/hash behaviour of exotic keys are run-time properties and not decided.",
        technique="term-domain abstract interpretation -> semantic group-by model (partition key, first-sight index discipline, outputs classified by parameter, reducer provenance of every group value) + aggregator fact tuples vs spec + sibling comparison",
        design="2/C12"),
    "C13": dict(
        text="window = aggregate expanded back to rows is decided structurally: window partitions exactly like aggregate and "
             "records row i's key in the same iteration; compute_group_values maps each group key to fn(values in row order), "
             "fresh per call; expand_to_rows returns group_map[row_keys[i]] for i in range(nrows); every output column is the "
             "expansion of its own column's group values; key columns are list(col), first; the six aggregators, the output "
             "naming and uniquify are fact-/alpha-equal to aggregate's; apply, guards, purity. Key names as for aggregate (C12): stored names kept, reserved first.",
        note="Value equality with an actual aggregate + join-back is not decided.",
        technique="term-domain abstract interpretation -> semantic window model (per-row key memo, group map, row expansion) + sibling (aggregate vs window) fact comparison",
        design="2/C13"),
    "C14": dict(
        text="Permutation and stability are decided by structure: one index list list(range(nrows)) that only .sort() ever "
             "touches, passes from the last key to the first, each with its own column data and its own reverse flag (bound per "
             "iteration), every column gathered through that same list under its source name; Vector.sort_by stores "
             "sorted(self._underlying). None placement is decided EXACTLY: the key functions of both sort_by's are evaluated by "
             "the abstract interpreter for every (None / value) x reverse x na_last cell (including the enclosing statements that "
             "select or parameterise the key), requiring distinct flags and None after all values iff na_last once the reversal "
             "is applied. reverse normalisation, purity, by-name key resolution.",
        note="Totality of the order on the non-None values is user data and not decided.",
        technique="term-domain abstract interpretation of sort_by (index permutation events, passes, rebuild) + finite evaluation of the key function's flag term over every (reverse, na_last, is-None) cell",
        design="2/C14"),
    "C17": dict(
        text="The sanitiser's pipeline order and step details are decided from its AST, its regular expression is parsed with "
             "re._parser (kept alphabet a subset of [a-z0-9_], + quantifier), the reserved set computed from the class bodies is "
             "closed under the '_' suffix and disjoint from generated forms; the naming kernels of the accessor map and of the "
             "repr header agree fact by fact (forms, separator rule, repeats detected over ALL columns with the column's own "
             "position); every path of __getattr__/__setattr__/__setitem__(str) that returned no positional accessor passes "
             "through the map lookup (CFG must-pass); the map is read only through the rebuild-if-renamed helper, built maps are "
             "always stored, every store to a column name in a Table method is followed by a rebuild; nothing writes stored "
             "names; string indexing is exact-name-first. The accessor form that Table.__getitem__ rebuilds for a repeated name is evaluated in the kernel's repeat situations (base ending in '_' or not) and equals the accessor map's.",
        note="Pairwise distinctness of accessors is argued from the decided ingredients (suffix rules + own position), not enumerated.",
        technique="decomposition of the sanitiser's returned term into its pipeline stages + regex syntax-tree analysis + accessor kernels evaluated per situation by term simplification + CFG feasible-path must-pass-through + who-may-read rule",
        design="2/C17"),
    "C18": dict(
        text="A typing discipline on the NAME argument of every construction site, one admissible class per operation category: "
             "binary arithmetic/comparison/logical kernels construct unnamed results (15 sites); copy's default, slicing, masking, "
             "index lists, sort_by, cast, fillna, to_object, unary ops pass the receiver's stored name; writes/promotion never "
             "store a name; table-scalar copies source names by position; _resolve_binary_name's decision table is evaluated "
             "exactly over {None, '', 'n', 'm'}^2 (16 cells) and wired to the result column; Table.__init__ saves names before "
             "copying and restores them by position; >> names a FRESH copy with the dict key; join results take source names "
             "with matching buffer index; aggregate/window keys and outputs pass through uniquify (shape-checked, sibling-equal; the key "
             "name is evaluated for the stored names None / '' / word); a table's OWN name survives every row selection and "
             "sort_by; table << rows, rows << table and vector (op) table name each fresh column after the column at its position. Every public Vector method that returns the vector kernel is overridden in Table (sibling agreement: bit_lshift / bit_rshift), copies of a 2-D OTHER operand in the vector kernels drop the table name, and every Table(...) built by Table.__getitem__ (column selections, 2-D slices) carries self._name.",
        note="The concrete suffix numbers chosen by uniquify are not decided.",
        technique="construction-site name provenance + finite abstract evaluation of the naming decision function + term-domain abstract interpretation of join / aggregate / window / construction naming + sibling comparison",
        design="2/C18"),
    "C19": dict(
        text="Decided clauses of a mostly value-level property: records come from csv.reader(file_obj, delimiter=delimiter) only, "
             "paths are opened with newline='' and the caller's encoding, both entry branches forward delimiter/has_header, no "
             "manual splitting; _infer_type's order is blank(stripped) -> int -> float -> stripped text with only ValueError "
             "caught; the transposition has one column per header cell (range(len(header))), visits every record unfiltered, pads "
             "short records with None, names columns by the header cell verbatim with inferred dtype, collects them in a list; "
             "no dict keyed by column names; empty and header-only inputs construct tables from lists.",
        note="Round-trip faithfulness of cell texts, quoting and unicode is the csv module's run-time behaviour and is not decided.",
        technique="term-domain abstract interpretation of the csv reader (cell-typing returns and handler conditions, transposition events, header/data terms) + who-may-call rule for lexing",
        design="2/C19"),
    "C20": dict(
        text="Totality and truthfulness of repr are decided by structural necessary conditions: partial operations on element "
             "values (int/round/floor) are preceded by a finiteness test; every tail slice x[-e:] has e provably >= 1 on all "
             "reaching definitions / call sites (x[-0:] would be everything); max()/min()/x[0] over possibly empty sequences are "
             "guarded; the footer reads len(pv)/pv.shape/pv._dtype and a dtype list computed over ALL columns, homogeneity is "
             "decided over all columns; the preview is head k + ellipsis + tail k iff len > 2k with exactly one halving of the "
             "row budget on each path (global default and per-table override); headers show stored names (judged for a name that needs quoting, a plain name, the empty name '' and NO name: no name never takes the display value of a text, the name row is shown when any name is not None, a vector named '' shows its name line); an int element printed in front of a literal '.0' uses the integer presentation (a bool is an int); repr is pure. The row limit is converted with operator.index() when it is set (a setting that is not an integer cannot reach a slice bound).",
        note="Totality over arbitrary user objects whose __str__/__eq__ raise, alignment and exact line counts are not decided.",
        technique="guard/dominance analysis + interprocedural positivity of slice bounds + definite assignment with correlated branch outcomes + term-domain evaluation of footer inputs (dtype token per situation) + effect summaries",
        design="2/C20"),
}

PENDING = "static rules for this property are designed (DESIGN.md section 2) but not yet built in this round; not claimed yet"
NOT_APPLICABLE = {}


def main():
    props = [json.loads(l)["id"] for l in open(os.path.join(HERE, "properties.jsonl"))]
    checks, na = [], []
    for p in props:
        have = os.path.exists(os.path.join(HERE, "serifscan", "rules", p.lower() + ".py"))
        if have and p in CLAIMS:
            c = CLAIMS[p]
            checks.append({
                "property_id": p,
                "quick_cmd": f"./sscan check {p} --tier quick",
                "thorough_cmd": f"./sscan check {p} --tier thorough",
                "evidence_file": f"/verif/evidence/{p}.json",
                "replay_cmd_template": "./sscan replay {path}",
                "engine": "serifscan",
                "level_claimed": {"category": "other", "text": c["text"], "design_ref": f"DESIGN.md section {c['design']}"},
                "level_note": c["note"],
                "technique": c["technique"],
            })
        else:
            na.append({"property_id": p, "reason": NOT_APPLICABLE.get(p, PENDING)})
    m = {
        "version": 1,
        "setup_cmd": "cd /verif && (if [ -x /venv/bin/python ]; then /venv/bin/python -m compileall -q serifscan; "
                     "else python3 -m compileall -q serifscan; fi) && ./sscan selfcheck",
        "hooks": {
            "guard": "SERIF_VERIF",
            "enable": "no hooks: the checks parse /repo/src/serif with the ast module and never import or run it, so "
                      "nothing in /repo is instrumented (the guard name is reserved and unused)",
            "baseline_off_cmd": "cd /repo && /venv/bin/python -m pytest -ra -q -p no:cacheprovider --timeout=900 "
                                "--continue-on-collection-errors",
            "source_commits": [],
            "add_only": True,
        },
        "engines": [{
            "name": "serifscan",
            "path": "/verif/serifscan",
            "serves_properties": [c["property_id"] for c in checks],
            "kind_free_text": "repository-specific static analyser (stdlib ast): program index with MRO call resolution, "
                              "per-function statement CFG (dominance / must-pass-through), intraprocedural def-use and "
                              "taint, finite abstract evaluators over type tags, normal-form matchers with sibling "
                              "comparison; armed-mutant self-test in the thorough tier",
        }],
        "checks": checks,
        "notes": "All checks are static: they re-parse /repo/src/serif on every run and never execute it. Exit 0 = every "
                 "rule instance held; 1 = VIOLATION line(s); 2 = ANALYSIS-ERROR (tree could not be analysed - never "
                 "a pass). Genuine defects found and repaired are listed in known_findings.json ('fixed').",
        "not_applicable": na,
    }
    with open(os.path.join(HERE, "MANIFEST.json"), "w") as f:
        json.dump(m, f, indent=1)
    print(f"MANIFEST.json: {len(checks)} checks, {len(na)} not claimed")


if __name__ == "__main__":
    main()

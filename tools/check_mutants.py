#!/usr/bin/env python3
"""List armed mutants whose anchor text no longer matches /repo (they would be skipped by the self-test)."""
import importlib, os, sys
sys.path.insert(0, '/verif')
src = '/repo/src/serif'
mods = {m[:-3]: open(os.path.join(src, m)).read() for m in os.listdir(src) if m.endswith('.py')}
bad = 0
for i in range(1, 21):
    mod = importlib.import_module(f'serifscan.rules.c{i:02d}')
    for m in getattr(mod, 'MUTANTS', []):
        edits = m.get('edits') or [(m['module'], m.get('old'), m.get('new'), m.get('count', 1))]
        for e in edits:
            mo, old = e[0], e[1]
            cnt = e[3] if len(e) > 3 and isinstance(e[3], int) else m.get('count', 1)
            if old is None:
                continue
            c = mods[mo].count(old)
            if c != cnt:
                bad += 1
                print(f"C{i:02d} {m['id']}: anchor count {c} != {cnt} in {mo}: {old[:80]!r}")
print(bad, "stale mutant anchor(s)")

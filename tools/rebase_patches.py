#!/usr/bin/env python3
"""Rebase seeded/ and twins/ patches that no longer apply to /repo HEAD (after `fix:` commits moved the text).

For every patch that `patch -p1 --dry-run` refuses on HEAD: find the newest commit of /repo it applies to, and
three-way merge (git merge-file) each touched file: ours = HEAD, base = that commit, theirs = that commit + patch.
A clean merge is verified (suite; seeded: demo fails with the change and passes without) and written back with a
`rebased` note in meta.json.  Conflicts are listed for manual work.  Scratch under /tmp only.

usage: rebase_patches.py [--write] [name-prefix ...]
"""
import json, os, shutil, subprocess, sys, tempfile
from concurrent.futures import ThreadPoolExecutor

V = "/verif"
REPO = "/repo"
PY = "/venv/bin/python"


def sh(*a, **k):
    return subprocess.run(list(a), capture_output=True, text=True, **k)


def applies(patch, tree):
    """applies without fuzz AND without offset: a hunk that `patch` had to move may have landed on a look-alike block (two
    branches of one function with identical context lines) - only an exact position is trusted"""
    r = sh("patch", "-p1", "-F0", "--dry-run", "-d", tree, "-i", patch)
    return r.returncode == 0 and "offset" not in r.stdout and "fuzz" not in r.stdout


def files_of(patch):
    out = []
    for l in open(patch):
        if l.startswith("+++ "):
            p = l[4:].split("\t")[0].strip()
            if p.startswith("b/"):
                p = p[2:]
            out.append(p)
    return out


COMMITS = sh("git", "-C", REPO, "log", "--format=%H").stdout.split()
HEAD = COMMITS[0]
_TREES = {}


def tree_at(commit):
    if commit not in _TREES:
        d = tempfile.mkdtemp(prefix="rb-tree-")
        subprocess.run(f"git -C {REPO} archive {commit} src | tar -x -C {d}", shell=True, check=True)
        _TREES[commit] = d
    return _TREES[commit]


def one(kind, name, write):
    d = f"{V}/{kind}/{name}"
    patch = f"{d}/patch.diff"
    head = tree_at(HEAD)
    if applies(patch, head):
        return name, "ok", ""
    base = None
    for c in COMMITS[1:]:
        if applies(patch, tree_at(c)):
            base = c
            break
    if base is None:
        return name, "NOBASE", "applies to no commit of /repo"
    tmp = tempfile.mkdtemp(prefix="rb-")
    try:
        theirs = os.path.join(tmp, "theirs")
        shutil.copytree(tree_at(base), theirs)
        sh("patch", "-p1", "-s", "-F0", "--no-backup-if-mismatch", "-d", theirs, "-i", patch)
        merged = os.path.join(tmp, "merged")
        shutil.copytree(head, merged)
        conflicts = []
        for f in files_of(patch):
            ours = os.path.join(merged, f)
            if not os.path.exists(ours) or not os.path.exists(os.path.join(tree_at(base), f)):
                shutil.copy(os.path.join(theirs, f), ours)
                continue
            r = sh("git", "merge-file", "-L", "HEAD", "-L", "base", "-L", "patch", ours, os.path.join(tree_at(base), f), os.path.join(theirs, f))
            if r.returncode != 0:
                conflicts.append(f)
        if conflicts:
            keep = f"/tmp/rb-conflict/{name}"
            shutil.rmtree(keep, ignore_errors=True)
            os.makedirs(os.path.dirname(keep), exist_ok=True)
            shutil.copytree(merged, keep)
            return name, "CONFLICT", f"base {base[:7]} files {conflicts} -> {keep}"
        # new patch
        a = os.path.join(tmp, "a"); b = os.path.join(tmp, "b")
        shutil.copytree(head, a); shutil.copytree(merged, b)
        r = sh("diff", "-ruN", "a", "b", cwd=tmp)
        newp = "\n".join(l for l in r.stdout.splitlines() if not l.startswith("diff -ruN")) + "\n"
        if not newp.strip():
            return name, "EMPTY", f"base {base[:7]}: the merge result equals HEAD (the fix subsumed the change)"
        # verify: suite
        r = sh(PY, "-m", "pytest", "-q", "-p", "no:cacheprovider", "-x", "-n", "2", f"{REPO}/tests",
               env=dict(os.environ, PYTHONPATH=os.path.join(merged, "src")), cwd=REPO)
        tail = r.stdout.strip().splitlines()[-1] if r.stdout.strip() else r.stderr[-200:]
        if "490 passed" not in tail:
            return name, "SUITE", f"base {base[:7]}: {tail}"
        note = f"rebased by three-way merge onto /repo {HEAD[:7]} (applied last to {base[:7]}); suite: {tail}"
        if kind == "seeded":
            demo = next((x for x in ("demo.py", "demo.sh") if os.path.exists(f"{d}/{x}")), None)
            if demo:
                cmd = [PY, f"{d}/{demo}"] if demo.endswith(".py") else ["sh", f"{d}/{demo}"]
                r1 = sh(*cmd, env=dict(os.environ, PYTHONPATH=os.path.join(merged, "src")), cwd=tmp)
                r0 = sh(*cmd, env=dict(os.environ, PYTHONPATH=os.path.join(head, "src")), cwd=tmp)
                if r0.returncode != 0:
                    return name, "DEMO0", f"demo fails on the unchanged tree (exit {r0.returncode}): {(r0.stdout + r0.stderr)[-200:]}"
                if r1.returncode == 0:
                    return name, "DEMO1", f"base {base[:7]}: demo passes with the rebased change (the fix neutralised it?)"
                note += f"; demo exit {r1.returncode} with the change, 0 without"
        if write:
            open(patch, "w").write(newp)
            mp = f"{d}/meta.json"
            m = json.load(open(mp))
            m["rebased"] = (m.get("rebased", "") + " | " if m.get("rebased") else "") + note
            json.dump(m, open(mp, "w"), indent=1)
        return name, "REBASED", note
    finally:
        shutil.rmtree(tmp, ignore_errors=True)


def main():
    write = "--write" in sys.argv
    sel = [a for a in sys.argv[1:] if not a.startswith("-")]
    jobs = []
    for kind in ("seeded", "twins"):
        for n in sorted(os.listdir(f"{V}/{kind}")):
            if os.path.exists(f"{V}/{kind}/{n}/patch.diff") and (not sel or any(n.startswith(s) for s in sel)):
                jobs.append((kind, n))
    for c in COMMITS:
        tree_at(c)
    with ThreadPoolExecutor(max_workers=8) as ex:
        res = list(ex.map(lambda j: one(j[0], j[1], write), jobs))
    from collections import Counter
    for name, st, msg in res:
        if st != "ok":
            print(f"{name:12s} {st:9s} {msg}")
    print(Counter(st for _, st, _ in res))
    for d in _TREES.values():
        shutil.rmtree(d, ignore_errors=True)


if __name__ == "__main__":
    main()

#!/usr/bin/env python3
"""usage: add_fixed.py <property> <commit> <what failed ...>   - append a `fixed:` entry to known_findings.json"""
import json, sys
prop, commit, what = sys.argv[1], sys.argv[2], " ".join(sys.argv[3:])
p = "/verif/known_findings.json"
d = json.load(open(p))
d["fixed"].append({"property": prop, "commit": commit, "what": what, "entry": f"fixed: property={prop} {commit} {what}"})
json.dump(d, open(p, "w"), indent=1)
print(len(d["fixed"]), "fixed entries")

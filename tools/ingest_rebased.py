#!/usr/bin/env python3
"""Take hand-rebased patches from /tmp/rb-out/<NAME>/ (patch.diff, rebase.txt, optionally an adjusted demo.py) into
seeded/ or twins/ after verifying each against /repo HEAD myself: applies cleanly, suite 490 passed, seeded: demo exits
non-zero with the change and 0 without.  usage: ingest_rebased.py [NAME ...]"""
import json, os, shutil, subprocess, sys, tempfile
from concurrent.futures import ThreadPoolExecutor

V, REPO, PY, OUT = "/verif", "/repo", "/venv/bin/python", "/tmp/rb-out"
HEAD = subprocess.run(["git", "-C", REPO, "rev-parse", "--short", "HEAD"], capture_output=True, text=True).stdout.strip()


def sh(*a, **k):
    return subprocess.run(list(a), capture_output=True, text=True, **k)


def one(name):
    kind = "twins" if os.path.isdir(f"{V}/twins/{name}") else "seeded"
    d = f"{V}/{kind}/{name}"
    src = f"{OUT}/{name}"
    if os.path.exists(f"{src}/OBSOLETE.txt"):
        return name, "OBSOLETE", open(f"{src}/OBSOLETE.txt").read()[:300]
    if not os.path.exists(f"{src}/patch.diff"):
        return name, "MISSING", ""
    if open(f"{src}/patch.diff").read() == open(f"{d}/patch.diff").read():
        return name, "SAME", "already ingested"
    tmp = tempfile.mkdtemp(prefix="rbi-")
    try:
        for t in ("with", "without"):
            os.makedirs(f"{tmp}/{t}")
            subprocess.run(f"git -C {REPO} archive HEAD src | tar -x -C {tmp}/{t}", shell=True, check=True)
        r = sh("patch", "-p1", "-s", "-F0", "--no-backup-if-mismatch", "-d", f"{tmp}/with", "-i", f"{src}/patch.diff")
        if r.returncode != 0:
            return name, "NOAPPLY", r.stdout[:200]
        if sh("diff", "-rq", f"{tmp}/with/src", f"{tmp}/without/src").returncode == 0:
            return name, "EMPTY", "patch changes nothing"
        r = sh(PY, "-m", "pytest", "-q", "-p", "no:cacheprovider", "-n", "2", f"{REPO}/tests",
               env=dict(os.environ, PYTHONPATH=f"{tmp}/with/src"), cwd=REPO)
        tail = r.stdout.strip().splitlines()[-1] if r.stdout.strip() else r.stderr[-200:]
        if "490 passed" not in tail:
            return name, "SUITE", tail
        note = f"rebased by hand onto /repo {HEAD}; suite: {tail}"
        newdemo = None
        if kind == "seeded":
            demo = f"{src}/demo.py" if os.path.exists(f"{src}/demo.py") else f"{d}/demo.py"
            if os.path.exists(f"{src}/demo.py"):
                newdemo = demo
            r1 = sh(PY, demo, env=dict(os.environ, PYTHONPATH=f"{tmp}/with/src"), cwd=tmp)
            r0 = sh(PY, demo, env=dict(os.environ, PYTHONPATH=f"{tmp}/without/src"), cwd=tmp)
            if r0.returncode != 0:
                return name, "DEMO0", f"demo exits {r0.returncode} on HEAD: {(r0.stdout + r0.stderr)[-300:]}"
            if r1.returncode == 0:
                return name, "DEMO1", "demo passes with the change"
            note += f"; demo exit {r1.returncode} with the change, 0 without" + (" (demo adjusted, see rebase note)" if newdemo else "")
        rb = open(f"{src}/rebase.txt").read().strip() if os.path.exists(f"{src}/rebase.txt") else ""
        shutil.copy(f"{src}/patch.diff", f"{d}/patch.diff")
        if newdemo:
            shutil.copy(f"{d}/demo.py", f"{d}/demo.orig.py")
            shutil.copy(newdemo, f"{d}/demo.py")
        m = json.load(open(f"{d}/meta.json"))
        m["rebased"] = ((m["rebased"] + " | ") if m.get("rebased") else "") + note + (" -- " + " ".join(rb.split())[:700] if rb else "")
        json.dump(m, open(f"{d}/meta.json", "w"), indent=1)
        return name, "INGESTED", note
    finally:
        shutil.rmtree(tmp, ignore_errors=True)


names = sys.argv[1:] or sorted(os.listdir(OUT))
with ThreadPoolExecutor(max_workers=8) as ex:
    for name, st, msg in ex.map(one, names):
        print(f"{name:10s} {st:9s} {msg[:200]}")

#!/usr/bin/env python3
"""Confirm a sub-agent's seeded changes myself and keep the confirmed ones.

usage: ingest_seeded.py C03 [C04 ...]
For each /tmp/wt/<ID>/_out/<k>/ : in the (clean) scratch worktree /tmp/wt/<ID>
  1. demo.py on the unchanged tree         -> must exit 0
  2. git apply patch.diff ; full test suite -> must be 490 passed
  3. demo.py with the change               -> must exit non-zero
  4. git checkout -- .                     (worktree clean again)
Confirmed changes are copied to /verif/seeded/<ID>-<k>/ with meta.json.
"""
import json
import os
import re
import shutil
import subprocess
import sys

PY = "/venv/bin/python"


def sh(cmd, cwd, env=None, timeout=900):
    e = dict(os.environ)
    e.update(env or {})
    return subprocess.run(cmd, cwd=cwd, env=e, shell=isinstance(cmd, str), capture_output=True, text=True, timeout=timeout)


def ingest(pid):
    wt = "/tmp/wt/" + os.environ.get("SEED_PREFIX", "") + pid
    env = {"PYTHONPATH": f"{wt}/src", "PYTHONDONTWRITEBYTECODE": "1"}
    out_root = os.path.join(wt, "_out")
    props = {json.loads(l)["id"]: json.loads(l) for l in open("/verif/properties.jsonl")}
    for k in sorted(os.listdir(out_root)):
        d = os.path.join(out_root, k)
        patch, demo = os.path.join(d, "patch.diff"), os.path.join(d, "demo.py")
        if not (os.path.exists(patch) and os.path.exists(demo)):
            print(f"{pid}-{k}: incomplete, skipped")
            continue
        sh("git checkout -q -- . ", wt)
        st = sh("git status --porcelain --untracked-files=no", wt).stdout.strip()
        assert not st, st
        r0 = sh([PY, demo], wt, env)
        a = sh(["git", "apply", patch], wt)
        if a.returncode != 0:
            print(f"{pid}-{k}: patch does not apply: {a.stderr[:200]}")
            continue
        files = sh("git diff --name-only", wt).stdout.split()
        suite = sh([PY, "-m", "pytest", "-q", "-p", "no:cacheprovider", "-n", "4", "--timeout=900"], wt, env)
        tail = suite.stdout.strip().splitlines()[-1] if suite.stdout.strip() else ""
        r1 = sh([PY, demo], wt, env)
        sh("git checkout -q -- .", wt)
        ok = r0.returncode == 0 and r1.returncode != 0 and re.search(r"\b490 passed", tail) and "failed" not in tail
        print(f"{pid}-{k}: demo clean={r0.returncode} suite='{tail}' demo changed={r1.returncode} files={files} -> {'KEEP' if ok else 'REJECT'}")
        if not ok:
            continue
        dst = "/verif/seeded/" + os.environ.get("SEED_TAG", "") + f"{pid}-{k}"
        os.makedirs(dst, exist_ok=True)
        shutil.copy(patch, os.path.join(dst, "patch.diff"))
        shutil.copy(demo, os.path.join(dst, "demo.py"))
        notes = os.path.join(d, "notes.md")
        if os.path.exists(notes):
            shutil.copy(notes, os.path.join(dst, "notes.md"))
        needs = ""
        if os.path.exists(notes):
            needs = " ".join(open(notes).read().split())[:700]
        meta = {
            "property": pid,
            "property_title": props[pid]["title"],
            "origin": "fresh sub-agent given only the property text and a scratch worktree (nothing from /verif)",
            "base_commit": sh("git rev-parse HEAD", wt).stdout.strip(),
            "files_touched": files,
            "needs_to_manifest": needs,
            "confirmed_by_me": {
                "demo_on_unchanged_tree_exit": r0.returncode,
                "suite_with_change": tail,
                "demo_with_change_exit": r1.returncode,
                "demo_output_with_change": (r1.stdout + r1.stderr).strip()[-400:],
                "commands": [f"git -C {wt} apply patch.diff", f"PYTHONPATH={wt}/src {PY} -m pytest -q -p no:cacheprovider -n 4",
                             f"PYTHONPATH={wt}/src {PY} demo.py", f"git -C {wt} checkout -- ."],
            },
            "expected_detected_by": [pid],
            "detected_by": [],
        }
        with open(os.path.join(dst, "meta.json"), "w") as f:
            json.dump(meta, f, indent=1)


if __name__ == "__main__":
    for p in sys.argv[1:]:
        ingest(p)

#!/usr/bin/env python3
"""Re-confirm every kept patch against /repo HEAD: applies without fuzz; the unedited suite reports 490 passed with it;
seeded: the demo exits 0 on the unchanged tree and non-zero with the change.  usage: verify_corpora.py [name-prefix ...]"""
import os, shutil, subprocess, sys, tempfile
from concurrent.futures import ThreadPoolExecutor
V, REPO, PY = "/verif", "/repo", "/venv/bin/python"


def sh(*a, **k):
    return subprocess.run(list(a), capture_output=True, text=True, **k)


def one(job):
    kind, name = job
    d = f"{V}/{kind}/{name}"
    tmp = tempfile.mkdtemp(prefix="vc-")
    try:
        for t in ("with", "without"):
            os.makedirs(f"{tmp}/{t}")
            subprocess.run(f"git -C {REPO} archive HEAD src | tar -x -C {tmp}/{t}", shell=True, check=True)
        r = sh("patch", "-p1", "-s", "-F0", "--no-backup-if-mismatch", "-d", f"{tmp}/with", "-i", f"{d}/patch.diff")
        if r.returncode:
            return name, "NOAPPLY", r.stdout[:120]
        r = sh(PY, "-m", "pytest", "-q", "-p", "no:cacheprovider", "-n", "2", f"{REPO}/tests",
               env=dict(os.environ, PYTHONPATH=f"{tmp}/with/src"), cwd=REPO)
        tail = r.stdout.strip().splitlines()[-1] if r.stdout.strip() else r.stderr[-200:]
        if "490 passed" not in tail:
            return name, "SUITE", tail
        if kind == "seeded":
            demo = f"{d}/demo.py"
            if os.path.exists(demo):
                r0 = sh(PY, demo, env=dict(os.environ, PYTHONPATH=f"{tmp}/without/src"), cwd=tmp)
                r1 = sh(PY, demo, env=dict(os.environ, PYTHONPATH=f"{tmp}/with/src"), cwd=tmp)
                if r0.returncode != 0:
                    return name, "DEMO0", (r0.stdout + r0.stderr)[-300:]
                if r1.returncode == 0:
                    return name, "DEMO1", "demo passes with the change"
        return name, "ok", ""
    finally:
        shutil.rmtree(tmp, ignore_errors=True)


sel = [a for a in sys.argv[1:]]
jobs = [(k, n) for k in ("seeded", "twins") for n in sorted(os.listdir(f"{V}/{k}"))
        if os.path.exists(f"{V}/{k}/{n}/patch.diff") and (not sel or any(n.startswith(s) for s in sel))]
with ThreadPoolExecutor(max_workers=6) as ex:
    res = list(ex.map(one, jobs))
from collections import Counter
for n, st, msg in res:
    if st != "ok":
        print(f"{n:12s} {st:8s} {msg[:200]}")
print(Counter(st for _, st, _ in res))

#!/usr/bin/env python3
"""Run every registered check on every behaviour-preserving twin (twins/<name>/patch.diff applied to a scratch copy of
/repo/src).  Expected: exit 0 everywhere.  exit 1 = FALSE ALARM (a defect of the checker), exit 2 = the checker does not
recognise the rewritten shape (fail-closed brittleness).  Updates twins/<name>/meta.json."""
import json, os, shutil, subprocess, sys, tempfile
from concurrent.futures import ThreadPoolExecutor

V = "/verif"
PROPS = [f"C{i:02d}" for i in range(1, 21)]
PROPS_ENV = os.environ.get("PROPS")
if PROPS_ENV:
    PROPS = PROPS_ENV.split(",")
PY = "/venv/bin/python" if os.path.exists("/venv/bin/python") else "python3"


import sys as _sys
DIR = "twins"
if "--dir" in _sys.argv:
    _i = _sys.argv.index("--dir")
    DIR = _sys.argv[_i + 1]
    del _sys.argv[_i:_i + 2]


def run_one(name):
    tmp = tempfile.mkdtemp(prefix="twinmx-")
    try:
        shutil.copytree("/repo/src", os.path.join(tmp, "src"), ignore=shutil.ignore_patterns("__pycache__"))
        r = subprocess.run(["patch", "-p1", "-s", "-F0", "--no-backup-if-mismatch", "-d", tmp, "-i", f"{V}/{DIR}/{name}/patch.diff"],
                           capture_output=True, text=True)
        if r.returncode != 0:
            return name, None, None, "patch failed: " + r.stdout[:200]
        env = dict(os.environ, SERIFSCAN_EVIDENCE_DIR=os.path.join(tmp, "ev"))
        hit, err, msgs = [], [], []
        for p in PROPS:
            rr = subprocess.run([PY, "-B", "-m", "serifscan", "check", p, "--repo", tmp], cwd=V, env=env, capture_output=True, text=True)
            if rr.returncode == 1:
                hit.append(p)
            elif rr.returncode == 2:
                err.append(p)
            if rr.returncode:
                msgs += [f"{p}: {l.strip()[:330]}" for l in rr.stdout.splitlines()
                         if l.strip().startswith(("VIOLATION DETAIL", "ANALYSIS-ERROR"))][:4]
        return name, hit, err, "\n".join(msgs)
    finally:
        shutil.rmtree(tmp, ignore_errors=True)


def main():
    names = sorted(n for n in os.listdir(f"{V}/{DIR}") if os.path.exists(f"{V}/{DIR}/{n}/meta.json"))
    sel = [a for a in sys.argv[1:] if not a.startswith("-")]
    if sel:
        names = [n for n in names if any(n.startswith(a) for a in sel)]
    with ThreadPoolExecutor(max_workers=16) as ex:
        res = list(ex.map(run_one, names))
    bad = 0
    for name, hit, err, msgs in res:
        if hit is None:
            print(f"{name:8s} {msgs}"); bad += 1; continue
        mp = f"{V}/{DIR}/{name}/meta.json"
        m = json.load(open(mp)); m["violation_in"] = hit; m["analysis_error_in"] = err
        if not PROPS_ENV:
            json.dump(m, open(mp, "w"), indent=1)
        print(f"{name:8s} {'silent' if not hit and not err else 'NOISY '} false-alarm: {','.join(hit) or '-':30s} unrecognised: {','.join(err) or '-'}")
        if msgs and "-v" in sys.argv:
            print("   " + msgs.replace("\n", "\n   "))
        bad += bool(hit or err)
    print(f"{len(res) - bad}/{len(res)} twins silent")


if __name__ == "__main__":
    main()

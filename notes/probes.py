"""Hand probes that reproduce each defect of DESIGN.md section 3 against the real code.

NOT part of any registered check (the checks are static).  Kept only as the
"failing input" record required for a genuine-defect classification.
Run:  /venv/bin/python /verif/notes/probes.py      (prints DEFECT / ok per probe)
"""
import io, gc, warnings, datetime, math
warnings.simplefilter("ignore")
from serif import Vector, Table, read_csv, set_repr_rows, DataType, AliasError

def probe(n, what, fn):
    try:
        bad = fn()
    except Exception as e:  # a raise is itself the defect for several probes
        bad = f"raised {type(e).__name__}: {e}".splitlines()[0]
    print(f"#{n:<2} {'DEFECT' if bad else 'ok    '} {what}" + (f"  -> {bad}" if bad else ""))

def p1():
    a = Vector([1, 2, 3], name='src'); t = Table({'a': [0, 0, 0]})
    t.a = a
    try:
        a[0] = 99
    except AliasError:
        return False
    return (list(t.a) == [99, 2, 3] and "t sees donor write") or (a.name != 'src' and "donor renamed")
def p1b():
    a = Vector([1, 2, 3], name='src'); t = Table({'a': [0, 0, 0]})
    t.a = a
    return a.name != 'src' and f"donor renamed to {a.name!r}"
def p2():
    t = Table([Vector([1, 2]), Vector([1, 2, 3])])
    return [len(c) for c in t.cols()] != [len(t)] * 2 and f"ragged {[len(c) for c in t.cols()]}"
def p3():
    v = 1.5 + Vector([1, 2]); return v.schema().kind is int and f"{v.schema()} holds {list(v)}"
def p4():
    v = -Vector([True, False]); return v.schema().kind is bool and type(v[0]) is not bool and f"{v.schema()} holds {list(v)}"
def p5():
    v = Vector([1, 2]) << ['x']; return v.schema().kind is int and f"{v.schema()} holds {list(v)}"
def p6a():
    v = Vector([1, 2, 3]); v[0] = None; return not v.schema().nullable and f"{v.schema()} holds {list(v)}"
def p6b():
    v = Vector([1, 2, 3])
    try: v[0:2] = [1.5, 'x']
    except TypeError: return False
    return f"{v.schema()} holds {list(v)}"
def p7():
    a, b = Vector([None, 1]).schema(), Vector([1, None]).schema(); return a != b and f"{a} vs {b}"
def p8():
    v = Vector([datetime.date(2020, 1, 1)]) + datetime.timedelta(days=1); return list(v) != [datetime.date(2020, 1, 2)]
def p9():
    return Vector([1, None, 3]).max() != 3
def p10():
    v = Vector([datetime.date(2020, 1, 1), None]) < '2021-01-01'; return list(v) != [True, False]
def p11():
    return list(Vector([1, 2, 3])[5:9]) != [] and "empty slice returns whole vector"
def p12():
    t = Table({'a': [1], 'b': [2]})
    try: r = t['a', 'missing']
    except KeyError: return False
    return f"returned {r.column_names()}"
def p13():
    L = Table({'k': [1, 1, 2]}); R = Table({'k': [1, 2], 'v': [10, 20]})
    L.join(R, 'k', 'k'); return False
def p13b():
    L = Table({'k': [1, 1, 2]}); R = Table({'k': [1, 2], 'v': [10, 20]})
    try: L.join(R, 'k', 'k', expect='one_to_many')
    except ValueError: return False
    return "one_to_many accepted repeated left keys"
def p14():
    r = list(Vector([3, None, 1]).sort_by(reverse=True)); return r != [3, 1, None] and f"{r}"
def p15():
    t = Vector([1, 2], name='a') >> Vector([3, 4], name='b')
    refused = 0
    for i in range(400):
        v = Vector([i, i + 1])
        try: v[0] = 5
        except AliasError: refused += 1
    return refused and f"{refused}/400 fresh vectors refused"
def p16():
    t = Table({'a': [1, 2, 3]}); f = t.fingerprint(); t.a[0] = 99; return t.fingerprint() == f and "table fingerprint stale"
def p17():
    t = Table({'cols': [1, 2]}); n = [x for x in dir(t) if x.startswith('cols')]
    getattr(t, 'cols_'); return False
def p18():
    t = Table({'a': [1, 2], 'b': [3, 4]}); t.a.name = 'z'
    t[0, 'z'] = 5; return False
def p20():
    t = read_csv(io.StringIO("a,b\n")); return t.column_names() != ['a', 'b'] and f"{t.column_names()}"
def p20b():
    t = read_csv(io.StringIO("a,a\n")); return t.column_names() != ['a', 'a'] and f"{t.column_names()}"
def p21():
    repr(Vector([1.0, float('nan')])); repr(Vector([1.0, float('inf')])); return False
def p22():
    set_repr_rows(1)
    try:
        s = repr(Vector(list(range(10))))
    finally:
        set_repr_rows(None)
    body = [l for l in s.splitlines() if l.strip() and not l.startswith('#')]
    return len(body) > 3 and f"{len(body)} body lines for a 1-row budget"

for n, what, fn in [
    (1, "t.a = v shares the donor", p1), (1, "t.a = v renames the donor", p1b),
    (2, "ragged Table accepted", p2), (3, "radd dtype lie", p3), (4, "unary dtype lie", p4),
    (5, "lshift dtype lie", p5), (6, "None into non-nullable", p6a), (6, "multi-value write 2nd incompatible", p6b),
    (7, "leading None inference", p7), (8, "date + timedelta", p8), (9, "max skips None", p9),
    (10, "date compare with None", p10), (11, "empty slice", p11), (12, "missing column in tuple", p12),
    (13, "left join default w/ repeated left keys", p13), (13, "left join one_to_many", p13b),
    (14, "Vector.sort_by reverse None placement", p14), (15, "stale alias registration", p15),
    (16, "table fingerprint stale", p16), (17, "cols_ accessor", p17), (18, "stale column map", p18),
    (20, "header-only csv", p20), (20, "header-only csv repeated names", p20b),
    (21, "repr nan/inf", p21), (22, "repr rows=1", p22)]:
    probe(n, what, fn)
